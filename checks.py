"""Table of solver queries per property.  Every bound is stated here and copied into the evidence."""
from engine import Query as Q

CHECKS = {}

# ---------------------------------------------------------------- C25
def _c25():
    qs = []
    common = dict(mode='seq', opt='O0', shift_check=True, unwind=66, timeout=600)
    qs.append(Q('bitrev', 'c25_bits.cpp', defs={'Q_BITREV': None}, **common))
    qs.append(Q('bitop', 'c25_bits.cpp', defs={'Q_BITOP': None}, **common))
    qs.append(Q('intalgo', 'c25_bits.cpp', defs={'Q_INTALGO': None}, **common))
    # the same three at -O1 (what an optimised build executes; idiom recognition may replace swar by llvm.bitreverse)
    qs.append(Q('bitrev_O1', 'c25_bits.cpp', defs={'Q_BITREV': None}, mode='seq', opt='O1', unwind=66, timeout=600))
    qs.append(Q('bitop_O1', 'c25_bits.cpp', defs={'Q_BITOP': None}, mode='seq', opt='O1', unwind=66, timeout=600))
    fast = dict(mode='seq', opt='O1', unwind=18, timeout=900)
    ub = dict(mode='seq', opt='O0', shift_check=True, unwind=18, timeout=900)
    for nbytes, ut, tiers in ((1, 'unsigned', ('quick', 'thorough')), (2, 'unsigned', ('quick', 'thorough')), (4, 'unsigned', ('quick', 'thorough')),
                              (6, 'size_t', ('thorough',)), (8, 'size_t', ('quick', 'thorough')), (8, 'unsigned', ('thorough',)),
                              (12, 'size_t', ('thorough',)), (16, 'size_t', ('thorough',))):
        qs.append(Q('split_bitstring_%dB_%s' % (nbytes, ut), 'c25_bits.cpp', defs={'Q_SPLIT_BITSTRING': None, 'SRC_BYTES': nbytes, 'UINT_T': ut, 'NCUTS': 3},
                    tiers=tiers, **fast))
    qs.append(Q('split_bitstring_8B_size_t_ub', 'c25_bits.cpp', defs={'Q_SPLIT_BITSTRING': None, 'SRC_BYTES': 8, 'UINT_T': 'size_t', 'NCUTS': 1}, **ub))
    for nbytes, ut, tiers in ((1, 'unsigned', ('thorough',)), (2, 'unsigned', ('thorough',)), (4, 'unsigned', ('quick', 'thorough')), (8, 'size_t', ('quick', 'thorough')),
                              (16, 'size_t', ('thorough',))):
        qs.append(Q('byte_splitter_%dB_%s' % (nbytes, ut), 'c25_bits.cpp', defs={'Q_BYTE_SPLITTER': None, 'SRC_BYTES': nbytes, 'UINT_T': ut, 'NCUTS': 3},
                    tiers=tiers, **fast))
    qs.append(Q('byte_splitter_8B_size_t_ub', 'c25_bits.cpp', defs={'Q_BYTE_SPLITTER': None, 'SRC_BYTES': 8, 'UINT_T': 'size_t', 'NCUTS': 1}, **ub))
    for it, tiers in (('size_t', ('quick', 'thorough')), ('unsigned', ('quick', 'thorough')), ('uint16_t', ('thorough',)), ('int', ('thorough',)),
                      ('long', ('thorough',)), ('short', ('thorough',)), ('"unsigned long long"', ('thorough',))):
        nm = it.strip('"').replace(' ', '_')
        qs.append(Q('number_splitter_' + nm, 'c25_bits.cpp', defs={'Q_NUMBER_SPLITTER': None, 'INT_T': it, 'NCUTS': 3}, tiers=tiers, **fast))
    qs.append(Q('number_splitter_size_t_ub', 'c25_bits.cpp', defs={'Q_NUMBER_SPLITTER': None, 'INT_T': 'size_t', 'NCUTS': 1}, **ub))
    qs.append(Q('number_splitter_unsigned_ub', 'c25_bits.cpp', defs={'Q_NUMBER_SPLITTER': None, 'INT_T': 'unsigned', 'NCUTS': 1}, tiers=('thorough',), **ub))
    return qs
CHECKS['C25'] = {
    'queries': _c25(),
    'level': 'model_checking',
    'outside': ['cut-width sequences longer than 3 cuts from a symbolic start offset (the splitter state is only the position, which is symbolic)',
                'ceil2(n) for n > 2^63 (result not representable)', 'big-endian code paths'],
    'assumptions': ['x86 bsr/bsf inline asm modelled by prelude.h (__verif_bsr*/__verif_bsf*); destination undefined for zero input'],
}
