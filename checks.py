"""Table of solver queries per property.  Every bound is stated here and copied into the evidence."""
from engine import Query as Q

CHECKS = {}
HP_ABORT = 'basic_smr4scanE|basic_smr9help_scanE|basic_smr12classic_scanE|basic_smr12inplace_scanE'

# ---------------------------------------------------------------- C25
def _c25():
    qs = []
    common = dict(mode='seq', opt='O0', shift_check=True, unwind=66, timeout=600)
    qs.append(Q('bitrev', 'c25_bits.cpp', defs={'Q_BITREV': None}, **common))
    qs.append(Q('bitop', 'c25_bits.cpp', defs={'Q_BITOP': None}, **common))
    qs.append(Q('intalgo', 'c25_bits.cpp', defs={'Q_INTALGO': None}, **common))
    # the same three at -O1 (what an optimised build executes; idiom recognition may replace swar by llvm.bitreverse)
    qs.append(Q('bitrev_O1', 'c25_bits.cpp', defs={'Q_BITREV': None}, mode='seq', opt='O1', unwind=66, timeout=600))
    qs.append(Q('bitop_O1', 'c25_bits.cpp', defs={'Q_BITOP': None}, mode='seq', opt='O1', unwind=66, timeout=600))
    fast = dict(mode='seq', opt='O1', unwind=18, timeout=900)
    ub = dict(mode='seq', opt='O0', shift_check=True, unwind=18, timeout=900)
    for nbytes, ut, tiers in ((1, 'unsigned', ('quick', 'thorough')), (2, 'unsigned', ('quick', 'thorough')), (4, 'unsigned', ('quick', 'thorough')),
                              (6, 'size_t', ('thorough',)), (8, 'size_t', ('quick', 'thorough')), (8, 'unsigned', ('thorough',)),
                              (12, 'size_t', ('thorough',)), (16, 'size_t', ('thorough',))):
        qs.append(Q('split_bitstring_%dB_%s' % (nbytes, ut), 'c25_bits.cpp', defs={'Q_SPLIT_BITSTRING': None, 'SRC_BYTES': nbytes, 'UINT_T': ut, 'NCUTS': 3},
                    tiers=tiers, **fast))
    qs.append(Q('split_bitstring_8B_size_t_ub', 'c25_bits.cpp', defs={'Q_SPLIT_BITSTRING': None, 'SRC_BYTES': 8, 'UINT_T': 'size_t', 'NCUTS': 1}, **ub))
    for nbytes, ut, tiers in ((1, 'unsigned', ('thorough',)), (2, 'unsigned', ('thorough',)), (4, 'unsigned', ('quick', 'thorough')), (8, 'size_t', ('quick', 'thorough')),
                              (16, 'size_t', ('thorough',))):
        qs.append(Q('byte_splitter_%dB_%s' % (nbytes, ut), 'c25_bits.cpp', defs={'Q_BYTE_SPLITTER': None, 'SRC_BYTES': nbytes, 'UINT_T': ut, 'NCUTS': 3},
                    tiers=tiers, **fast))
    qs.append(Q('byte_splitter_8B_size_t_ub', 'c25_bits.cpp', defs={'Q_BYTE_SPLITTER': None, 'SRC_BYTES': 8, 'UINT_T': 'size_t', 'NCUTS': 1}, **ub))
    for it, tiers in (('size_t', ('quick', 'thorough')), ('unsigned', ('quick', 'thorough')), ('uint16_t', ('thorough',)), ('int', ('thorough',)),
                      ('long', ('thorough',)), ('short', ('thorough',)), ('unsigned long long', ('thorough',))):
        nm = it.strip('"').replace(' ', '_')
        qs.append(Q('number_splitter_' + nm, 'c25_bits.cpp', defs={'Q_NUMBER_SPLITTER': None, 'INT_T': it, 'NCUTS': 3}, tiers=tiers, **fast))
    qs.append(Q('number_splitter_size_t_ub', 'c25_bits.cpp', defs={'Q_NUMBER_SPLITTER': None, 'INT_T': 'size_t', 'NCUTS': 1}, **ub))
    qs.append(Q('number_splitter_unsigned_ub', 'c25_bits.cpp', defs={'Q_NUMBER_SPLITTER': None, 'INT_T': 'unsigned', 'NCUTS': 1}, tiers=('thorough',), **ub))
    return qs
CHECKS['C25'] = {
    'queries': _c25(),
    'level': 'model_checking',
    'outside': ['cut-width sequences longer than 3 cuts from a symbolic start offset (the splitter state is only the position, which is symbolic)',
                'ceil2(n) for n > 2^63 (result not representable)', 'big-endian code paths'],
    'assumptions': ['x86 bsr/bsf inline asm modelled by prelude.h (__verif_bsr*/__verif_bsf*); destination undefined for zero input'],
}

# ---------------------------------------------------------------- C26
def _c26():
    qs = []
    c = dict(mode='seq', opt='O1', unwind=67, timeout=600)
    qs.append(Q('init_small32', 'c26_counter.cpp', defs={'Q_INIT': None, 'NSMALL': 31}, mode='seq', opt='O0', unwind=67, timeout=600,
                note='-O0 IR: no inlining, so every loop lives in its own function frame (cbmc loop counters are per frame)'))
    qs.append(Q('step_inc_dec', 'c26_counter.cpp', defs={'Q_STEP': None}, **c))
    qs.append(Q('step_inc_dec_ub', 'c26_counter.cpp', defs={'Q_STEP': None}, mode='seq', opt='O0', shift_check=True, unwind=67, timeout=600))
    qs.append(Q('step_dec_inc', 'c26_counter.cpp', defs={'Q_DEC': None}, **c))
    qs.append(Q('distinct', 'c26_counter.cpp', defs={'Q_DISTINCT': None}, **c))
    qs.append(Q('dyck8', 'c26_counter.cpp', defs={'Q_DYCK': None, 'NOPS': 8}, **c))
    qs.append(Q('dyck14', 'c26_counter.cpp', defs={'Q_DYCK': None, 'NOPS': 14}, tiers=('thorough',), mode='seq', opt='O1', unwind=67, timeout=3000))
    qs.append(Q('prefix_contiguous', 'c26_counter.cpp', defs={'Q_PREFIX': None, 'NMAX': '(1ull<<20)'}, **c))
    return qs
CHECKS['C26'] = {
    'queries': _c26(), 'level': 'model_checking',
    'outside': ['counts >= 2^63', 'the claim is inductive over the representation invariant INV(count, reversed, high_bit) stated in harness/c26_counter.cpp'],
    'assumptions': ['pre-state of the step queries is any state satisfying INV; INV is asserted for the initial state and after every step, so it is not an extra assumption'],
}

# ---------------------------------------------------------------- C27
def _c27():
    qs = []
    for var, vn, tiers in ((0, 'hp', ('quick', 'thorough')), (1, 'nogc', ('quick', 'thorough')), (2, 'rcu', ('quick', 'thorough'))):
        for br in ('swar', 'lookup', 'muldiv'):
            t = tiers if (br == 'swar' or var == 0) else ('thorough',)
            qs.append(Q('splitorder_%s_%s' % (vn, br), 'c27_splitorder.cpp', defs={'VARIANT': var, 'BITREV': br, 'KLO': 0, 'KHI': 63},
                        mode='seq', opt='O1', unwind=66, timeout=900, tiers=t))
    qs.append(Q('splitorder_hp_swar_ub', 'c27_splitorder.cpp', defs={'VARIANT': 0, 'BITREV': 'swar', 'KLO': 0, 'KHI': 63},
                mode='seq', opt='O0', shift_check=True, unwind=66, timeout=900))
    return qs
CHECKS['C27'] = {
    'queries': _c27(), 'level': 'model_checking',
    'outside': ['bucket_no() is run on an object whose only initialised member is m_nBucketCountLog2 (a real table of 2^k buckets cannot be built for symbolic k)',
                'big-endian targets'],
    'assumptions': [],
}

# ---------------------------------------------------------------- C28
def _c28():
    qs = []
    qs.append(Q('metrics_make', 'c28_feldman.cpp', defs={'Q_METRICS': None, 'HEAD_MAX': 64, 'HEAD_MAX64': 48}, mode='seq', opt='O1', unwind=4, timeout=600))
    qs.append(Q('metrics_make_ub', 'c28_feldman.cpp', defs={'Q_METRICS': None, 'HEAD_MAX': 64, 'HEAD_MAX64': 48}, mode='seq', opt='O0', shift_check=True, unwind=4, timeout=600))
    for ht, nm, lv, tiers in (('uint8_t', 'u8', 3, ('quick', 'thorough')), ('uint16_t', 'u16', 7, ('quick', 'thorough')),
                              ('uint32_t', 'u32', 15, ('quick', 'thorough')), ('uint64_t', 'u64', 31, ('quick', 'thorough'))):
        qs.append(Q('path_' + nm, 'c28_feldman.cpp', defs={'Q_PATH': None, 'HASH_T': ht, 'MAXLEVEL': lv, 'HEAD_MAX64': 48}, mode='seq', opt='O1',
                    unwind=max(lv + 2, 10), timeout=900, tiers=tiers))
    return qs
CHECKS['C28'] = {
    'queries': _c28(), 'level': 'model_checking',
    'outside': ['8-byte hashes with a requested head_bits > 48 (a head array of more than 2^48 slots cannot be allocated; metrics::make would shift by 64 for head_bits == 64)',
                'user-supplied hash_splitter types other than the default select_splitter choice; non-integral hash types wider than 8 bytes',
                'the tree code of multilevel_array::traverse/expand_slot and FeldmanHashSet::insert itself: a sequential harness over the real hazard-pointer environment exists (attic/c28b_feldman_set.cpp.txt, 2 inserts with symbolic 1-byte hashes) but cbmc runs out of 16 GB even on a concrete input, so the claim stops at the addressing arithmetic: the harness replays the cut sequence of traverse on the real splitter and metrics'],
    'assumptions': [],
}

# ---------------------------------------------------------------- C22
def _c22():
    qs = []
    def q(name, kind, T, K, nops, trylock=0, tiers=('quick', 'thorough'), timeout=600, unwind=4):
        qs.append(Q(name, 'c22_locks.cpp', mode='coro', T=T, K=K, defs={'LOCK_KIND': kind, 'NOPS': nops, 'USE_TRYLOCK': trylock, 'VERIF_T': T},
                    spin={'do_lock': 2}, unwind=unwind, timeout=timeout, tiers=tiers, validate=6))
    q('spin_lock_T2_K4', 0, 2, 4, 1)
    q('spin_lock_T2_K6_n2', 0, 2, 6, 2, unwind=5)
    q('spin_lock_T3_K5', 0, 3, 5, 1)
    q('spin_trylock_T2_K5_n2', 0, 2, 5, 2, trylock=1, unwind=5)
    q('reentrant_T2_K4', 1, 2, 4, 1)
    q('reentrant_T2_K6_n2', 1, 2, 6, 2, unwind=5)
    q('reentrant_T2_K8_n2', 1, 2, 8, 2, tiers=('thorough',), timeout=3000, unwind=6)
    q('reentrant_T3_K5', 1, 3, 5, 1, tiers=('thorough',), timeout=3000)
    q('spin_lock_T3_K7_n2', 0, 3, 7, 2, tiers=('thorough',), timeout=3000, unwind=5)
    q('spin_lock_T2_K10_n3', 0, 2, 10, 3, tiers=('thorough',), timeout=3000, unwind=6)
    def m(name, kind, T, K, nops, nn=2, tiers=('quick', 'thorough'), timeout=900, unwind=4, spinU=2):
        qs.append(Q(name, 'c22b_monitors.cpp', mode='coro', T=T, K=K, defs={'MON_KIND': kind, 'NOPS': nops, 'NNODES': nn, 'VERIF_T': T},
                    spin={'do_lock|do_unlock|pool_monitor': spinU}, unwind=unwind, timeout=timeout, tiers=tiers, validate=6, coro_style='guard'))
    m('pool_monitor_T2_K5_n1', 0, 2, 5, 1)
    m('pool_monitor_T2_K5_n2_1node', 0, 2, 5, 2, nn=1, unwind=5, tiers=('thorough',), timeout=3000)
    m('pool_monitor_T3_K5_n1', 0, 3, 5, 1, tiers=('thorough',), timeout=3000)
    m('injecting_monitor_T2_K5_n2', 1, 2, 5, 2, unwind=5)
    m('lock_array_pow2_T2_K5_n2', 2, 2, 5, 2, unwind=5)
    m('lock_array_mod3_T2_K5_n2', 3, 2, 5, 2, unwind=5)
    m('lock_array_pow2_T3_K5_n1', 2, 3, 5, 1, tiers=('thorough',), timeout=3000)
    return qs
CHECKS['C22'] = {
    'queries': _c22(), 'level': 'model_checking',
    'outside': ['pool_monitor is run over a harness-supplied lock pool (ghost bookkeeping, real spin_lock objects); the real vyukov_queue_pool is the subject of C24',
                'lock_array::lock_all/unlock_all; std::mutex as lock type', 'more than 3 threads, 2 critical sections per thread, 2 nodes',
                'sequential consistency only: weakening a memory_order is not detectable', 'schedules with more than K-1 context switches',
                'liveness (a lock() that spins forever is cut by assume after U failed iterations)'],
    'assumptions': ['context switches only immediately before atomic operations (DRF-SC)', 'pthread_self() modelled as the harness thread number'],
}

# ---------------------------------------------------------------- C07
def _c07():
    qs = []
    def q(name, T, K, nops, cap, rot, dyn=0, ic=0, tiers=('quick', 'thorough'), timeout=900, U=3, sc=0, intr=0, cl=0, style='goto', fine=None):
        qs.append(Q(name, 'c07_vyukov.cpp', mode='coro', T=T, K=K, defs={'NOPS': nops, 'CAP': cap, 'ROTMAX': rot, 'DYNAMIC_BUFFER': dyn, 'ITEM_COUNTER': ic, 'VERIF_T': T,
                                                                       'SINGLE_CONSUMER': sc, 'INTRUSIVE': intr, 'CLEANER': cl},
                    spin={'do_enq|do_deq': U}, unwind=max(U, cap) + 3, unwind_fn={'linearizable': 26 if T * nops <= 4 else 122}, timeout=timeout, tiers=tiers, validate=6, coro_style=style, fine_fn=fine))
    q('vyukov_static_cap2_T2_n1_K4', 2, 4, 1, 2, 3)
    q('vyukov_fine_cap2_T2_n1_K4', 2, 4, 1, 2, 3, fine='do_enq|do_deq|enqueue_with|dequeue_with')
    q('vyukov_fine_cap2_T3_n1_K4', 3, 4, 1, 2, 2, fine='do_enq|do_deq|enqueue_with|dequeue_with')
    q('vyukov_dynamic_cap2_T2_n1_K4_ic', 2, 4, 1, 2, 1, dyn=1, ic=1)
    q('vyukov_static_cap2_T3_n1_K4', 3, 4, 1, 2, 2)
    q('vyukov_static_cap2_T2_n2_K4', 2, 4, 2, 2, 3, tiers=('thorough',), timeout=3000)
    q('vyukov_static_cap2_T2_n1_K6', 2, 6, 1, 2, 3)
    q('vyukov_sc_front_cap2_T2_n2_K4', 2, 4, 2, 2, 1, sc=1, tiers=('thorough',), timeout=3000)
    q('vyukov_sc_front_cap2_T2_n1_K5', 2, 5, 1, 2, 1, sc=1)
    q('vyukov_sc_front_cap2_T3_n1_K4', 3, 4, 1, 2, 1, sc=1)
    q('vyukov_intrusive_cap2_T3_n1_K4', 3, 4, 1, 2, 1, intr=1)
    q('vyukov_cleaner_cap2_T2_n2_K4', 2, 4, 2, 2, 2, cl=1, tiers=('thorough',), timeout=3000)
    q('vyukov_cleaner_cap2_T3_n1_K4', 3, 4, 1, 2, 2, cl=1)
    return qs
CHECKS['C07'] = {
    'queries': _c07(), 'level': 'model_checking',
    'outside': ['at most 2 threads x 2 operations or 3 threads x 1 operation on a pre-rotated (wrap-around), pre-filled queue; capacities above 8; more than K-1 context switches',
                'value types with non-trivial destructors are represented by a custom value_cleaner that overwrites the cell and contains one atomic operation (context-switch point)',
                'sequential consistency only: weakening a memory_order is not detectable'],
    'assumptions': ['context switches only immediately before atomic operations (DRF-SC)',
                    'retry iterations of enqueue_with/dequeue_with are read-only on shared state; more than U retries per call are cut by assume (stutter-equivalent for safety)'],
}


# ---------------------------------------------------------------- C12
def _c12():
    qs = []
    def seq_t(name, cap, nops, rot, dyn=0, reqcap=None, tiers=('quick', 'thorough'), timeout=900):
        d = {'Q_SEQ_T': None, 'CAP': cap, 'NOPS': nops, 'ROT': rot, 'DYNAMIC_BUFFER': dyn}
        if reqcap: d['REQCAP'] = reqcap
        qs.append(Q(name, 'c12_ring.cpp', mode='seq', opt='O1', defs=d, unwind=max(nops, cap, rot) + 3, timeout=timeout, tiers=tiers, validate=10))
    def seq_v(name, cap, nops, dyn=0, strict=0, tiers=('quick', 'thorough'), timeout=900):
        d = {'Q_SEQ_V': None, 'CAP': cap, 'NOPS': nops, 'DYNAMIC_BUFFER': dyn}
        if strict: d['STRICT_SPACE'] = None
        qs.append(Q(name, 'c12_ring.cpp', mode='seq', opt='O1', defs=d, unwind=max(nops + 3, cap - 16 + 2), timeout=timeout, tiers=tiers, validate=10))
    def coro_t(name, cap, np_, nc, K, rot, dyn=0, tiers=('quick', 'thorough'), timeout=900, style='goto'):
        qs.append(Q(name, 'c12_ring.cpp', mode='coro', T=2, K=K, defs={'Q_CORO_T': None, 'CAP': cap, 'NP': np_, 'NC': nc, 'ROT': rot, 'DYNAMIC_BUFFER': dyn},
                    unwind=max(cap, rot) + 3, unwind_fn={'linearizable': 26}, timeout=timeout, tiers=tiers, validate=6, coro_style=style))
    def coro_v(name, cap, np_, nc, K, dyn=1, tiers=('quick', 'thorough'), timeout=900, style='goto'):
        qs.append(Q(name, 'c12_ring.cpp', mode='coro', T=2, K=K, defs={'Q_CORO_V': None, 'CAP': cap, 'NP': np_, 'NC': nc, 'DYNAMIC_BUFFER': dyn},
                    unwind=cap - 16 + 3, unwind_fn={'linearizable': 26}, timeout=timeout, tiers=tiers, validate=6, object_bits=10, coro_style=style))
    seq_t('typed_seq_static_cap4_n5', 4, 5, 3)
    seq_t('typed_seq_dynamic_req3_cap4_n5', 4, 5, 1, dyn=1, reqcap=3)
    seq_t('typed_seq_static_cap8_n6', 8, 6, 5, tiers=('thorough',), timeout=3000)
    seq_t('typed_seq_static_cap2_n8', 2, 8, 1, tiers=('thorough',), timeout=3000)
    seq_v('void_seq_dynamic_cap32_n6', 32, 6, dyn=1)
    seq_v('void_seq_static_cap32_n3', 32, 3, dyn=0)
    seq_v('void_seq_static_cap32_n5', 32, 5, dyn=0, tiers=('thorough',), timeout=3000)
    seq_v('void_seq_dynamic_cap32_n5_strict', 32, 5, dyn=1, strict=1)
    seq_v('void_seq_dynamic_cap32_n8', 32, 8, dyn=1, tiers=('thorough',), timeout=3000)
    coro_t('typed_coro_cap4_p1c1_K4', 4, 1, 1, 4, 3)
    coro_t('typed_coro_cap4_p2c1_K5', 4, 2, 1, 5, 3)
    coro_t('typed_coro_cap2_p1c2_K5_dyn', 2, 1, 2, 5, 1, dyn=1)
    coro_t('typed_coro_cap4_p2c2_K6', 4, 2, 2, 6, 3, tiers=('thorough',), timeout=3000)
    coro_t('typed_coro_cap4_p2c2_K8', 4, 2, 2, 8, 3, tiers=('thorough',), timeout=3000)
    coro_v('void_coro_cap32_p1c1_K4', 32, 1, 1, 4)
    coro_v('void_coro_cap32_p2c1_K5', 32, 2, 1, 5, tiers=('thorough',), timeout=3000)
    return qs
CHECKS['C12'] = {
    'queries': _c12(), 'level': 'model_checking',
    'outside': ['more than NOPS calls per script / NP+NC <= 4 concurrent calls; capacities other than 2,4,8 elements and 32,64 bytes',
                'position counters near 2^64 (not reachable through the API)',
                'record sizes with calc_real_size(size) >= capacity (back() documents/asserts real_size < capacity)',
                'sequential consistency only: weakening a memory_order is not detectable', 'schedules with more than K-1 context switches',
                'value types with non-trivial constructors/destructors (value_cleaner)'],
    'assumptions': ['context switches only immediately before atomic operations (DRF-SC)', 'one producer thread and one consumer thread (the documented SPSC contract)'],
}


# ---------------------------------------------------------------- C21
def _c21():
    qs = []
    def q(name, kind, T, K, nn, nops, U=4, tiers=('quick', 'thorough'), timeout=900, script=None, **kw):
        d = {'LIST_KIND': kind, 'NNODES': nn, 'NOPS': nops, 'VERIF_T': T}
        if script is not None: d['SCRIPT'] = script
        qs.append(Q(name, 'c21_freelist.cpp', mode='coro', T=T, K=K, defs=d,
                    unwind=max(U, nn + 2, nops + 1), timeout=timeout, tiers=tiers, validate=6, **kw))
    q('freelist_T2_n2_ops1_K4', 0, 2, 4, 2, 1)
    q('tagged_T2_n2_ops1_K4', 1, 2, 4, 2, 1)
    q('cached_freelist_T2_n1_ops1_K3', 2, 2, 3, 1, 1, unwind_fn={'h_check': 6, r'CachedFreeList.*3getEv': 6}, coro_style='guard')
    q('cached_freelist_T2_n2_ops1_K4', 2, 2, 4, 2, 1, unwind_fn={'h_check': 6, r'CachedFreeList.*3getEv': 6}, coro_style='guard', tiers=('thorough',), timeout=3000)
    # both threads put (concrete step kinds; ownership and schedule symbolic): thread ids 2 and 3 hash to the same cache cell (murmur & 3 == 0),
    # so this is the query in which two put() calls race for one cache cell; script 0/1/2 = get||get, put||get, get||put
    for sc in (3, 0, 1, 2):
        q('cached_freelist_T2_n2_ops1_K4_script%d' % sc, 2, 2, 4, 2, 1, script=sc, unwind_fn={'h_check': 6, r'CachedFreeList.*3getEv': 6}, coro_style='guard',
          tiers=('quick', 'thorough') if sc == 3 else ('thorough',), timeout=1500)
    # the same over TaggedFreeList as the underlying list
    for sc in (3, 1, 0, 2):
        q('cached_tagged_T2_n2_ops1_K4_script%d' % sc, 3, 2, 4, 2, 1, script=sc, unwind_fn={'h_check': 6, r'CachedFreeList.*3getEv': 6}, coro_style='guard',
          tiers=('quick', 'thorough') if sc in (3, 1) else ('thorough',), timeout=1500)
    # two steps per thread: the 16 step-kind combinations are separate queries (concrete kinds keep symex small); initial ownership and schedule stay symbolic
    for sc in range(16):
        q('freelist_T2_n2_ops2_K4_script%d' % sc, 0, 2, 4, 2, 2, script=sc, tiers=('quick', 'thorough') if sc in (0, 1, 4, 6, 9) else ('thorough',))
    for sc in (0, 1, 4, 6, 9):
        q('tagged_T2_n2_ops2_K4_script%d' % sc, 1, 2, 4, 2, 2, script=sc, tiers=('quick', 'thorough') if sc in (0, 6) else ('thorough',))
    return qs
CHECKS['C21'] = {
    'queries': _c21(), 'level': 'model_checking',
    'outside': ['more than 3 nodes / 3 threads / 3 steps per thread; schedules with more than K-1 context switches',
                'sequential consistency only: weakening a memory_order is not detectable',
                'compare_exchange_weak never fails spuriously', 'ABA through re-allocation of node memory (nodes are static; re-insertion of the SAME node is covered)'],
    'assumptions': ['context switches only immediately before atomic operations (DRF-SC)',
                    'std::this_thread::get_id() is the harness thread number + 1; std::_Hash_bytes is the libstdc++ murmur implementation (prelude.h): threads 1 and 2 both map to cache cell 0 of CachedFreeList<.,4,.> (colliding threads; non-colliding threads are not explored)'],
}


# ---------------------------------------------------------------- C24
def _c24():
    qs = []
    def q(name, kind, T, K, nops, cap=2, maxhold=2, tiers=('quick', 'thorough'), timeout=900, U=3, style='goto'):
        qs.append(Q(name, 'c24_pools.cpp', mode='coro', T=T, K=K, defs={'POOL_KIND': kind, 'CAP': cap, 'NOPS': nops, 'MAXHOLD': maxhold, 'VERIF_T': T},
                    spin={'do_alloc|do_free': U}, unwind=max(U, cap, nops, T * maxhold) + 2, timeout=timeout, tiers=tiers, validate=6, coro_style=style))
    q('vyukov_pool_T2_n1_K4', 0, 2, 4, 1)
    q('lazy_pool_T2_n1_K4', 1, 2, 4, 1)
    q('bounded_pool_T2_n1_K3', 2, 2, 3, 1, maxhold=1, tiers=('thorough',), timeout=3000)
    q('pool_allocator_T2_n1_K4', 3, 2, 4, 1)
    q('vyukov_pool_T3_n1_K4', 0, 3, 4, 1, maxhold=1, tiers=('thorough',), timeout=3000)
    return qs
CHECKS['C24'] = {
    'queries': _c24(), 'level': 'model_checking',
    'outside': ['pool capacity other than 2; more than 3 steps per thread, more than 3 threads; schedules with more than K-1 context switches',
                'objects with non-trivial constructors', 'sequential consistency only: weakening a memory_order is not detectable',
                'the bounded pool is never driven past its capacity (allocate() then throws std::bad_alloc by design; reaching the throw is reported as a failure)'],
    'assumptions': ['context switches only immediately before atomic operations (DRF-SC)',
                    'retry iterations of the queue push/pop are read-only on shared state; more than U retries per call are cut by assume (stutter-equivalent for safety)'],
}


# ---------------------------------------------------------------- C09
def _c09():
    qs = []
    def q(name, T, K, nops, pre=2, intr=0, ic=0, tiers=('quick', 'thorough'), timeout=900, U=3, style='goto'):
        qs.append(Q(name, 'c09_stack.cpp', mode='coro', T=T, K=K, defs={'NOPS': nops, 'PREMAX': pre, 'INTRUSIVE': intr, 'ITEM_COUNTER': ic, 'VERIF_T': T, 'HP_ENV_THREADS': T},
                    unwind=max(U, pre + T * nops + 2), unwind_fn={'linearizable': 26 if T * nops <= 4 else 122}, timeout=timeout, tiers=tiers, validate=6,
                    cxxflags=['-fno-access-control'], object_bits=12, coro_style=style, atomic_fn='hp_env_model_pass', abort_fn=HP_ABORT, mem_gb=(16 if 'quick' in tiers else 40)))
    q('treiber_value_T2_n1_K4', 2, 4, 1)
    q('treiber_intrusive_T2_n1_K4', 2, 4, 1, intr=1)
    q('treiber_value_T2_n1_K5_ic', 2, 5, 1, ic=1)
    q('treiber_value_T2_n1_K6_ic', 2, 6, 1, ic=1, tiers=('thorough',), timeout=3000)
    return qs
CHECKS['C09'] = {
    'queries': _c09(), 'level': 'model_checking',
    'outside': ['elimination back-off (needs cds::threading::Manager thread data) and FCStack (flat-combining kernel) are not encoded',
                'DHP', 'reclamation passes are the proven specification of the real scan (hp_env.h), executed without preemption',
                'more than 3 threads / 2 operations per thread; schedules with more than K-1 context switches; sequential consistency only'],
    'assumptions': ['context switches only immediately before atomic operations (DRF-SC)'],
}


# ---------------------------------------------------------------- C06
def _c06():
    qs = []
    def q(name, kind, T, K, nops, pre=2, ic=0, tiers=('quick', 'thorough'), timeout=900, U=3, style='goto', fine=None):
        qs.append(Q(name, 'c06_queue.cpp', mode='coro', T=T, K=K, defs={'QUEUE_KIND': kind, 'NOPS': nops, 'PREMAX': pre, 'ITEM_COUNTER': ic, 'VERIF_T': T, 'HP_ENV_THREADS': T},
                    spin={'do_enq|do_deq|enqueue_with|dequeue_with|do_dequeue': U}, unwind=max(U, pre + T * nops + 3), unwind_fn={'linearizable': 26 if T * nops <= 4 else 122}, timeout=timeout, tiers=tiers, validate=6,
                    cxxflags=['-fno-access-control'], object_bits=12, coro_style=style, atomic_fn='hp_env_model_pass', abort_fn=HP_ABORT, mem_gb=(16 if 'quick' in tiers else 40), fine_fn=fine))
    q('rwqueue_T2_n1_K4', 4, 2, 4, 1)
    q('rwqueue_fine_T2_n1_K4', 4, 2, 4, 1, fine='do_enq|do_deq|enqueue_with|dequeue_with')
    q('rwqueue_T2_n1_K6', 4, 2, 6, 1)
    q('msqueue_T2_n1_K4', 0, 2, 4, 1, pre=1, U=2, tiers=('thorough',), timeout=3000)
    q('moirqueue_T2_n1_K4', 1, 2, 4, 1, pre=1, U=2, tiers=('thorough',), timeout=3000)
    return qs
CHECKS['C06'] = {
    'queries': _c06(), 'level': 'model_checking',
    'outside': ['FCQueue (flat-combining kernel) and the intrusive variants as separate instantiations (the value containers are thin wrappers over them); DHP; OptimisticQueue (the harness exists, QUEUE_KIND=3, but cbmc ran out of 40 GB: not claimed)',
                'reclamation passes are the proven specification of the real scan (hp_env.h), executed without preemption',
                'more than 3 threads / 2 operations per thread; schedules with more than K-1 context switches; sequential consistency only (relaxed vs seq_cst traits cannot differ)'],
    'assumptions': ['context switches only immediately before atomic operations (DRF-SC)'],
}


# ---------------------------------------------------------------- C11
def _c11():
    qs = []
    def seq(name, heapsz, nops, prio=3, tiers=('quick', 'thorough'), timeout=900):
        qs.append(Q(name, 'c11_pqueue.cpp', mode='seq', opt='O1', defs={'Q_SEQ': None, 'HEAPSZ': heapsz, 'NOPS': nops, 'PRIOMAX': prio},
                    unwind=max(nops, heapsz, 8) + 3, timeout=timeout, tiers=tiers, validate=10))
    def co(name, mode, T, K, nops, heapsz=4, tiers=('quick', 'thorough'), timeout=900, U=4, style='goto'):
        qs.append(Q(name, 'c11_pqueue.cpp', mode='coro', T=T, K=K, defs={'Q_CORO': None, 'PQ_MODE': mode, 'HEAPSZ': heapsz, 'NOPS': nops, 'PRIOMAX': 3, 'VERIF_T': T},
                    spin={'do_push|do_pop|spin_lock|MSPriorityQueue': 3}, unwind=max(U, heapsz, 8) + 2, unwind_fn={'linearizable': 26}, timeout=timeout, tiers=tiers, validate=6, coro_style=style))
    seq('mspq_seq_cap3_n5', 4, 5)
    seq('mspq_seq_cap1_n6', 2, 6)
    co('mspq_push_push_T2_n1_K4', 0, 2, 4, 1, tiers=('thorough',), timeout=3000)
    co('mspq_pop_pop_T2_n1_K4', 1, 2, 4, 1, tiers=('thorough',), timeout=3000)
    return qs
CHECKS['C11'] = {
    'queries': _c11(), 'level': 'model_checking',
    'outside': ['FCPriorityQueue (flat-combining kernel not encoded)', 'push overlapping pop (the mixed query gave no verdict in 50 min): concurrent claims are push||push and pop||pop only', 'heap capacities above 7 items; more than 6 calls per sequential script; more than 3 threads',
                'sequential consistency only; schedules with more than K-1 context switches; node spin-locks: more than 2 failed acquisition attempts per lock() are cut by assume (stutter-equivalent for safety)'],
    'assumptions': ['context switches only immediately before atomic operations (DRF-SC)', 'pthread_self() is the harness thread number (heap node tags)'],
}



# ---------------------------------------------------------------- C04 / C05
def _c04():
    qs = []
    def q(name, kind, T, K, nupd=1, nread=1, bufcap=2, third_reader=0, tiers=('quick', 'thorough'), timeout=900, U=3, style='goto', opt='O1', nested2=0):
        qs.append(Q(name, 'c04_rcu.cpp', srcs=['thread_data.cpp', 'urcu_gp.cpp', 'urcu_sh.cpp', 'init.cpp', 'hp.cpp', 'dhp.cpp', 'hp_thread_local.cpp'], mode='coro', T=T, K=K, opt=opt,
                    defs={'RCU_KIND': kind, 'NUPD': nupd, 'NREAD': nread, 'BUFCAP': bufcap, 'THIRD_IS_READER': third_reader, 'VERIF_T': T, 'CDS_THREADING_CXX11': None, 'NESTED2': nested2},
                    spin={'flip_and_wait|do_sync|do_retire|synchronize|spin_lock': U}, unwind=max(U, T + 2, nupd * T + 2, bufcap + 2) + 1, timeout=timeout, tiers=tiers, validate=6,
                    object_bits=12, coro_style=style, atomic_fn=('clear_buffer' if kind == 1 else None)))
    q('gpi_reader_vs_updater_T2_K4', 0, 2, 4)
    q('gpi_nested2_reader_vs_updater_T2_K6', 0, 2, 6, nested2=1)
    q('gpi_reader_vs_updater_T2_K4_u2r1', 0, 2, 4, nupd=2, nread=1)
    q('gpi_reader_vs_updater_T2_K5_u2r1', 0, 2, 5, nupd=2, nread=1, tiers=('thorough',), timeout=3000)
    q('gpi_reader_vs_updater_T2_K6_u2r2', 0, 2, 6, nupd=2, nread=2, tiers=('thorough',), timeout=3000)
    q('gpi_2readers_vs_updater_T3_K5', 0, 3, 5, third_reader=1)
    q('gpi_reader_vs_2updaters_T3_K5', 0, 3, 5, tiers=('thorough',), timeout=3000)
    q('gpi_reader_vs_2updaters_T3_K4', 0, 3, 4)
    return qs
CHECKS['C04'] = {
    'queries': _c04(), 'level': 'model_checking',
    'outside': ['general_buffered: the harness supports it (RCU_KIND=1) but its smallest query (2 threads, buffer capacity 1, recursive synchronize -> clear_buffer -> push_buffer) gave no verdict in 50 min, so it is NOT claimed; general_threaded (disposer thread, condition variables) and signal_buffered (signal handlers) are not encoded; raw_ptr / exempt_ptr of the RCU containers',
                'more than 3 threads, 2 updates or reads per thread, nesting deeper than 2; schedules with more than K-1 context switches; sequential consistency only (the seq_cst fences of access_lock/flip_and_wait are context-switch points, their ordering effect beyond SC is not modelled)',
                'liveness: a synchronize() that waits forever is cut by assume after U polling rounds',
                'general_buffered::clear_buffer() (disposal of the buffered pointers after the grace period; recursive through push_buffer -> synchronize) runs without preemption'],
    'assumptions': ['context switches only immediately before atomic operations and fences (DRF-SC)', 'cds::threading::Manager in its C++11 thread_local flavour (-DCDS_THREADING_CXX11); pthread_self() is the harness thread number'],
}
CHECKS['C05'] = dict(CHECKS['C04'])

# ---------------------------------------------------------------- C01 / C03 (HP reclamation pass, sequentialised threads)
def _c01(tag):
    qs = []
    import math
    for st in ('classic', 'inplace'):
        for nobj, nthr, hp, tiers in ((2, 2, 1, ('quick', 'thorough')), (3, 2, 2, ('quick', 'thorough')), (3, 3, 1, ('thorough',)), (4, 2, 2, ('thorough',))):
            qs.append(Q('scanunit_%s_n%d_t%d_hp%d' % (st, nobj, nthr, hp), 'c01_scan.cpp', mode='seq', opt='O0',
                        defs={'NOBJ': nobj, 'NTHR': nthr, 'HPCOUNT': hp, 'SCAN_TYPE': st, 'SCAN_FN': st + '_scan', 'VERIF_SORT_MAX': max(nobj, nthr * hp)},
                        unwind=max(nobj + 1, nthr * hp) + 4, timeout=900, tiers=tiers, validate=10, cxxflags=['-fno-access-control'], object_bits=14))
    def co(name, T, K, nupd=1, nread=1, hp=1, tiers=('quick', 'thorough'), timeout=900, U=4, style='guard'):
        qs.append(Q(name, 'c01_coro.cpp', mode='coro', T=T, K=K, opt='O1',
                    defs={'SCAN_TYPE': 'inplace', 'HPCOUNT': hp, 'NUPD': nupd, 'NREAD': nread, 'ROLE2': 0, 'VERIF_T': T, 'MODEL_SCAN': 1},
                    unwind=U, timeout=timeout, tiers=tiers, validate=6, cxxflags=['-fno-access-control'], object_bits=12, coro_style=style, atomic_fn='model_pass', abort_fn='basic_smr4scanE|basic_smr9help_scanE|basic_smr12classic_scanE|basic_smr12inplace_scanE'))
    co('protect_vs_retire_pass_T2_K4', 2, 4)
    co('protect_vs_retire_pass_T2_K6_u2', 2, 6, nupd=2, nread=2, U=5)
    co('protect_vs_retire_pass_T2_K5_u2_goto', 2, 5, nupd=2, nread=1, U=5, style='goto')
    co('protect_vs_retire_pass_T2_K8_u2', 2, 8, nupd=2, nread=2, U=6, tiers=('thorough',), timeout=3000)
    return qs
CHECKS['C01'] = {
    'queries': _c01('C01'), 'level': 'model_checking',
    'outside': ['DHP (src/dhp.cpp) is not encoded: the C03 claim covers the HP scheme only',
                'scan unit: more than 3 thread records, 4 objects, 2 hazard slots per record; thread records are typed objects built by the harness (same constructors and list linkage) instead of the raw block of create_thread_data(); std::sort is replaced by a sorting-network model (prelude.h), lower_bound/binary_search are the real libstdc++ code',
                'interleaved queries: the reclamation pass itself is replaced by the specification the scan-unit queries prove of the real classic_scan/inplace_scan (atomic pass); protect(), Guard, retire(), the hazard slots and the retired array are the real code; help_scan adoption of a detached thread is only covered sequentially (translation-validation runs), not by a solver query',
                'odd object addresses are covered only as far as the solver picks them (malloc alignment is not modelled); DefaultTLSManager (the harness supplies its own TLSManager through custom_HP, the documented extension point)',
                'sequential consistency only; schedules with more than K-1 context switches'],
    'assumptions': ['malloc never fails', 'context switches only immediately before atomic operations (DRF-SC)'],
}
CHECKS['C03'] = dict(CHECKS['C01'])
