#!/usr/bin/env python3
"""Orchestrator: for one query  build IR from /repo's working tree -> translate -> translation validation ->
cbmc (witness + property in one run) -> replay of counterexamples -> result record."""
import os, sys, re, json, time, subprocess, shutil, hashlib, tempfile, resource, signal, threading

VERIF = os.path.dirname(os.path.abspath(__file__))
REPO = os.environ.get('VERIF_REPO', '/repo')
IR2C = os.path.join(VERIF, 'ir2c')
GUARD = 'KHIZMAX_LIBCDS_VERIF'

CLANG_BASE = ['clang++-14', '-std=c++17', '-fno-exceptions', '-fno-rtti', '-fno-vectorize', '-fno-slp-vectorize',
              '-fno-unroll-loops', '-DNDEBUG', '-I' + REPO, '-I' + os.path.join(VERIF, 'harness'), '-S', '-emit-llvm', '-w']
GXX_BASE = ['g++', '-std=c++17', '-O1', '-DNDEBUG', '-I' + REPO, '-I' + os.path.join(VERIF, 'harness'), '-I' + IR2C, '-w', '-pthread']

class Query:
    """One solver query.  Everything that defines the bounded claim is a field here and is copied to the evidence."""
    def __init__(s, name, harness, mode='seq', defs=None, srcs=(), T=2, K=4, unwind=8, unwindset=None, opt='O1',
                 shift_check=False, spin=None, tiers=('quick', 'thorough'), timeout=300, mem_gb=16, solver='default',
                 object_bits=None, validate=20, note='', threads_tls=None, cxxflags=(), expect_known=None,
                 extra_cbmc=(), hook=True, depth=None, unwind_fn=None, coro_style='goto', atomic_fn=None, abort_fn=None, crosscheck=1, fine_fn=None):
        s.name = name; s.harness = harness; s.mode = mode; s.defs = dict(defs or {}); s.srcs = list(srcs)
        s.T = T; s.K = K; s.unwind = unwind; s.unwindset = dict(unwindset or {}); s.opt = opt
        s.shift_check = shift_check; s.spin = dict(spin or {}); s.tiers = tiers; s.timeout = timeout
        s.mem_gb = mem_gb; s.solver = solver; s.object_bits = object_bits; s.validate = validate; s.note = note
        s.threads_tls = threads_tls; s.cxxflags = list(cxxflags); s.expect_known = expect_known
        s.extra_cbmc = list(extra_cbmc); s.hook = hook; s.depth = depth
        s.coro_style = coro_style            # 'guard': clones re-walk their CFG with execution switched off; 'goto': clones jump to the resume label
        s.crosscheck = crosscheck            # number of recorded native runs of the generated C that cbmc must reproduce
        s.fine_fn = fine_fn                  # regex: functions whose plain loads/stores are context-switch points too
        s.abort_fn = abort_fn                # regex: functions declared unreachable for this query (reaching one is a reported failure)
        s.atomic_fn = atomic_fn              # regex: calls to these yield-capable functions are executed without preemption
        s.unwind_fn = dict(unwind_fn or {})   # {regex over loop id (function.N): bound}: resolved to --unwindset via cbmc --show-loops
    def bounds(s):
        b = {'mode': s.mode, 'declared_unreachable': s.abort_fn, 'unwind': s.unwind, 'unwindset': s.unwindset, 'unwind_by_function': s.unwind_fn, 'defines': s.defs, 'ir_opt': s.opt}
        if s.mode == 'coro': b.update(coroutine_encoding=s.coro_style, threads=s.T, segments_K=s.K, context_switches_max=s.K - 1, spin_cut=s.spin, run_without_preemption=s.atomic_fn, fine_grained_functions=s.fine_fn)
        return b

def run(cmd, cwd=None, timeout=None, env=None, mem_gb=None, stdout=subprocess.PIPE, stderr=subprocess.STDOUT):
    def pre():
        os.setsid()
        if mem_gb:
            lim = int(mem_gb * (1 << 30)); resource.setrlimit(resource.RLIMIT_AS, (lim, lim))
    t0 = time.time()
    p = subprocess.Popen(cmd, cwd=cwd, env=env, stdout=stdout, stderr=stderr, preexec_fn=pre, text=True, errors='replace')
    try:
        out, _ = p.communicate(timeout=timeout)
        return p.returncode, out, time.time() - t0
    except subprocess.TimeoutExpired:
        try: os.killpg(p.pid, signal.SIGKILL)
        except Exception: pass
        out, _ = p.communicate()
        return -999, out or '', time.time() - t0

class Broken(Exception):
    """the check itself could not be carried out (exit 2): never a pass, never a violation"""

def defs_flags(defs):
    return ['-D%s=%s' % (k, v) if v is not None else '-D' + k for k, v in sorted(defs.items())]

def build_ir(q, wd):
    lls = []
    srcs = [os.path.join(VERIF, 'harness', q.harness)] + [os.path.join(REPO, 'src', x) for x in q.srcs]
    for i, src in enumerate(srcs):
        out = os.path.join(wd, 'u%d.ll' % i)
        if q.opt == 'O1':
            cmd = CLANG_BASE + ['-O1'] + defs_flags(q.defs) + q.cxxflags + [src, '-o', out]
            rc, o, _ = run(cmd, cwd=wd, timeout=600)
            if rc != 0: raise Broken('clang failed on %s:\n%s' % (src, o[-3000:]))
        else:
            raw = os.path.join(wd, 'u%d.raw.ll' % i)
            cmd = CLANG_BASE + ['-O0', '-Xclang', '-disable-O0-optnone'] + defs_flags(q.defs) + q.cxxflags + [src, '-o', raw]
            rc, o, _ = run(cmd, cwd=wd, timeout=600)
            if rc != 0: raise Broken('clang failed on %s:\n%s' % (src, o[-3000:]))
            rc, o, _ = run(['opt-14', '-S', '-passes=mem2reg,sroa,instsimplify', raw, '-o', out], cwd=wd, timeout=600)
            if rc != 0: raise Broken('opt failed:\n' + o[-3000:])
        lls.append(out)
    allp = os.path.join(wd, 'all.ll')
    if len(lls) == 1: shutil.copy(lls[0], allp)
    else:
        rc, o, _ = run(['llvm-link-14', '-S'] + lls + ['-o', allp], cwd=wd, timeout=300)
        if rc != 0: raise Broken('llvm-link failed:\n' + o[-3000:])
    return allp

def harness_roots(q, ll):
    txt = open(ll).read()
    have = set(re.findall(r'^define [^@]*@(h_[a-z0-9_]+)\(', txt, re.M))
    if q.mode == 'seq':
        if 'h_main' not in have: raise Broken('harness has no h_main')
        return ['h_main'], {}
    roots = ['h_setup', 'h_check'] + ['h_thread%d' % k for k in range(1, q.T + 1)]
    for r in roots:
        if r not in have: raise Broken('harness lacks %s' % r)
    flags = {}
    if 'h_init' in have: roots.append('h_init'); flags['HAVE_INIT'] = None
    if 'h_fini' in have: roots.append('h_fini'); flags['HAVE_FINI'] = None
    return roots, flags

def translate(q, ll, wd, roots):
    gen = os.path.join(wd, 'gen.c'); rep = os.path.join(wd, 'ir2c.json')
    nt = q.threads_tls if q.threads_tls else (q.T + 1 if q.mode == 'coro' else 1)
    cmd = [sys.executable, os.path.join(IR2C, 'ir2c.py'), ll, gen, '--roots', ','.join(roots), '--threads', str(nt), '--report', rep]
    if q.mode == 'coro': cmd += ['--coro', '--coro-style', os.environ.get('VERIF_CORO_STYLE', q.coro_style)]
    if q.shift_check: cmd.append('--shift-check')
    if q.atomic_fn: cmd += ['--atomic', q.atomic_fn]
    if q.abort_fn: cmd += ['--abort-fn', q.abort_fn]
    if q.fine_fn: cmd += ['--fine', q.fine_fn]
    for rx, U in q.spin.items(): cmd += ['--spin', '%s=%d' % (rx, U)]
    rc, o, _ = run(cmd, cwd=wd, timeout=600)
    if rc != 0: raise Broken('ir2c failed: ' + o[-3000:])
    return gen, json.load(open(rep))

def driver_defs(q, flags):
    d = dict(flags)
    if q.mode == 'seq': d['VERIF_SEQ'] = None
    else: d['VERIF_T'] = q.T; d['VERIF_K'] = q.K
    return d

def write_main(q, wd, flags):
    p = os.path.join(wd, 'main.c')
    with open(p, 'w') as f:
        for k, v in sorted(driver_defs(q, flags).items()):
            f.write('#define %s %s\n' % (k, '' if v is None else v))
        f.write('#include "gen.c"\n#include "driver.c"\n')
    return p

# ---------------- translation validation / replay executables
def build_native(q, wd, flags, hook_available):
    """(b) gcc build of generated C, (c) g++ build of the real harness."""
    eb = os.path.join(wd, 'exe_gen'); ec = os.path.join(wd, 'exe_real')
    rc, o, _ = run(['gcc', '-O1', '-w', '-falign-functions=16', '-I' + IR2C, '-I' + wd, os.path.join(wd, 'main.c'), '-o', eb], cwd=wd, timeout=900)
    if rc != 0: raise Broken('gcc build of generated C failed:\n' + o[-4000:])
    dd = driver_defs(q, flags)
    use_hook = q.mode == 'coro' and hook_available and q.hook
    cmd = GXX_BASE + defs_flags(q.defs) + defs_flags(dd) + q.cxxflags
    if use_hook: cmd.append('-D' + GUARD)
    cmd += [os.path.join(VERIF, 'harness', q.harness)] + [os.path.join(REPO, 'src', x) for x in q.srcs]
    cmd += [os.path.join(VERIF, 'rt', 'native_rt.cpp'), '-o', ec, '-latomic']
    rc, o, _ = run(cmd, cwd=wd, timeout=1800)
    if rc != 0: raise Broken('g++ build of the real harness failed:\n' + o[-4000:])
    return eb, ec, use_hook

def native_run(exe, seed=None, replay=None, yield_den=None, timeout=60):
    env = dict(os.environ)
    env.pop('VERIF_REPLAY', None); env.pop('VERIF_SEED', None)
    if seed is not None: env['VERIF_SEED'] = str(seed)
    if replay is not None: env['VERIF_REPLAY'] = replay
    if yield_den is not None: env['VERIF_YIELD_DEN'] = str(yield_den)
    rc, o, _ = run([exe], env=env, timeout=timeout)
    return rc, o

def validate_translation(q, eb, ec, use_hook, seed0):
    """same value stream into both builds; logs must be identical"""
    n = q.validate; same = 0; ended = {'ok': 0, 'pruned': 0, 'fail': 0}; samples = []; native_fail = []
    yd = None if (q.mode == 'seq') else (3 if use_hook else 0)
    for i in range(n):
        seed = seed0 * 1000 + i
        rb, ob = native_run(eb, seed=seed, yield_den=yd)
        rc_, oc = native_run(ec, seed=seed, yield_den=yd)
        if 'undefined behaviour in the source' in ob:
            ended.setdefault('ub_in_source', 0); ended['ub_in_source'] += 1; continue   # no defined result to compare
        if 'ASSERT-FAIL' in oc:
            # a concrete failing run of the REAL code (independent of the translation): reported as a violation by run_query
            ended['fail'] += 1
            msg = re.search(r'ASSERT-FAIL (.*)', oc).group(1)
            native_fail.append({'seed': seed, 'desc': msg, 'log': oc.strip().split('\n')[-8:]})
            continue
        if ob != oc or rb != rc_:
            raise Broken('TRANSLATION VALIDATION MISMATCH (seed %d): generated C and the g++ build of the real code disagree\n--- generated C (rc=%s)\n%s\n--- real (rc=%s)\n%s'
                         % (seed, rb, ob[-1500:], rc_, oc[-1500:]))
        m = re.search(r'END (\w+)', ob)
        if not m: raise Broken('native run did not finish (seed %d):\n%s' % (seed, ob[-1500:]))
        ended[m.group(1)] += 1; same += 1
        if len(samples) < 2: samples.append({'seed': seed, 'log': ob.strip().split('\n')[-4:]})
    return same, ended, samples, native_fail

def crosscheck_cbmc_native(q, wd, eb, seed0, n=2):
    """cbmc versus gcc on the SAME generated C: a native run (random inputs, random context switches) records the values it consumed and
    the observations it printed; cbmc then executes the program with exactly those values (VERIF_FIXED_STREAM) and must reproduce every
    observation and reach the end.  Guards against modelling differences inside cbmc (e.g. lost stores through integer-carried pointers)."""
    done = 0; tried = 0
    while done < n and tried < 2 * n:
        seed = seed0 * 7919 + tried; tried += 1
        rec = os.path.join(wd, 'rec_%d.txt' % seed)
        env = dict(os.environ); env.pop('VERIF_REPLAY', None)
        env.update(VERIF_SEED=str(seed), VERIF_RECORD=rec)
        if q.mode == 'coro': env['VERIF_YIELD_DEN'] = '3'
        rc, out, _ = run([eb], env=env, timeout=60)
        if 'END ok' not in out or 'ASSERT-FAIL' in out: continue      # pruned by an assumption (or failing): not a usable reference run
        stream = [int(x) for x in open(rec).read().split()] if os.path.exists(rec) else []
        obs = [int(m, 16) for m in re.findall(r'^OBS ([0-9a-f]+)$', out, re.M)]
        with open(os.path.join(wd, 'stream.h'), 'w') as f:
            f.write('#define VERIF_STREAM_N %d\n#define VERIF_OBS_N %d\n' % (max(1, len(stream)), max(1, len(obs))))
            f.write('static const uint64_t VERIF_STREAM[%d] = {%s};\n' % (max(1, len(stream)), ','.join('%dULL' % v for v in stream) or '0'))
            f.write('static const uint64_t VERIF_OBS[%d] = {%s};\n' % (max(1, len(obs)), ','.join('%dULL' % v for v in obs) or '0'))
        cmd = [c for c in cbmc_cmd(q, wd) if c != '--slice-formula'] + ['-DVERIF_FIXED_STREAM']
        rc2, out2, dt = run(cmd, cwd=wd, timeout=min(600, q.timeout), mem_gb=q.mem_gb)
        res, _ = parse_cbmc(out2)
        if rc2 == -999 or not res or 'ut of memory' in out2:
            continue            # the concrete run itself was too expensive for cbmc: inconclusive, not counted
        bad = [r for r in res if r['st'] == 'FAILURE' and 'CROSSCHECK' in r['desc']]
        wit = [r for r in res if 'VERIF-WITNESS' in r['desc']]
        if bad:
            open(os.path.join(wd, 'crosscheck_%d.out' % seed), 'w').write(out2)
            raise Broken('CBMC/NATIVE DIVERGENCE (query %s, seed %d): cbmc executing the recorded run of the gcc build of the same generated C disagrees: %s'
                         % (q.name, seed, '; '.join('%s: %s' % (r['id'], r['desc'][:80]) for r in bad[:4])))
        if not wit or wit[0]['st'] != 'FAILURE':
            continue            # cut by an unwinding bound before the end: inconclusive, not counted
        done += 1
    return done

# ---------------- cbmc
RES_RE = re.compile(r'^\[(?P<id>[^\]]+)\] (?:line (?P<line>\d+) )?(?P<desc>.*): (?P<st>SUCCESS|FAILURE|UNKNOWN|ERROR)$')

def cbmc_cmd(q, wd, trace=False, prop=None):
    cmd = ['cbmc', os.path.join(wd, 'main.c'), '-I' + IR2C, '-I' + wd, '--unwind', str(q.unwind), '--unwinding-assertions',
           '--drop-unused-functions', '--no-standard-checks', '--bounds-check', '--pointer-check', '--div-by-zero-check',
           '--signed-overflow-check', '--undefined-shift-check', '--no-malloc-may-fail']
    if not trace: cmd.append('--slice-formula')
    if prop: cmd += ['--property', prop]
    uws = dict(q.unwindset)
    if q.mode == 'coro': uws.setdefault('main.0', q.K + 2)      # the scheduler loop of the driver: K segments
    if q.unwind_fn:
        if not hasattr(q, '_loops') or q._loops[0] != wd:
            rc, o, _ = run(['cbmc', os.path.join(wd, 'main.c'), '-I' + IR2C, '-I' + wd, '--drop-unused-functions', '--show-loops'], cwd=wd, timeout=300)
            q._loops = (wd, re.findall(r'^Loop (\S+):', o, re.M))
        for lid in q._loops[1]:
            for rx, U in q.unwind_fn.items():
                if re.search(rx, lid): uws.setdefault(lid, U)
    if uws:
        cmd += ['--unwindset', ','.join('%s:%d' % kv for kv in sorted(uws.items()))]
    if q.object_bits: cmd += ['--object-bits', str(q.object_bits)]
    if q.depth: cmd += ['--depth', str(q.depth)]
    if q.solver == 'kissat': cmd += ['--external-sat-solver', 'kissat']
    elif q.solver == 'cadical': cmd += ['--sat-solver', 'cadical']
    cmd += q.extra_cbmc
    if trace: cmd.append('--trace')
    return cmd

def parse_cbmc(out):
    res = []
    for l in out.split('\n'):
        m = RES_RE.match(l.strip())
        if m: res.append(m.groupdict())
    stats = {}
    m = re.search(r'size of program expression: (\d+) steps', out);  stats['ssa_steps'] = int(m.group(1)) if m else 0
    m = re.search(r'Generated (\d+) VCC\(s\), (\d+) remaining', out)
    if m: stats['vccs'] = int(m.group(1)); stats['vccs_remaining'] = int(m.group(2))
    m = re.findall(r'(\d+) variables, (\d+) clauses', out)
    if m: stats['sat_variables'] = int(m[-1][0]); stats['sat_clauses'] = int(m[-1][1])
    stats['solver_calls'] = len(re.findall(r'SAT checker: instance is', out))
    m = re.findall(r'Runtime Solver: ([0-9.e+-]+)s', out)
    if m: stats['solver_time_s'] = round(sum(float(x) for x in m), 3)
    m = re.search(r'Runtime Symex: ([0-9.e+-]+)s', out)
    if m: stats['symex_time_s'] = float(m.group(1))
    return res, stats

def nd_stream_from_trace(out, after_marker=None):
    """values that passed through __verif_nd_log, in order, from a --trace listing of ONE property's trace"""
    vals = []
    for m in re.finditer(r'^\s*return_value_nondet_verif_u64=(\d+)ul* ', out, re.M):
        vals.append(int(m.group(1)))
    return vals

def split_traces(out):
    """text --trace output -> {property id: trace text}"""
    tr = {}
    parts = re.split(r'^Trace for ([^\n:]+):\s*$', out, flags=re.M)
    for i in range(1, len(parts) - 1, 2):
        tr[parts[i].strip()] = parts[i + 1]
    return tr

def run_query(q, tier, seed, scratch_root, hook_available=False, keep=False, is_known=None):
    """returns a result dict; raises Broken"""
    t0 = time.time()
    wd = tempfile.mkdtemp(prefix=q.name + '.', dir=scratch_root)
    R = {'query': q.name, 'harness': q.harness, 'bounds': q.bounds(), 'note': q.note, 'status': None}
    try:
        ll = build_ir(q, wd)
        roots, flags = harness_roots(q, ll)
        gen, rep = translate(q, ll, wd, roots)
        write_main(q, wd, flags)
        R['encoded'] = {'ir_lines': rep['ir_lines'], 'functions': len(rep['functions']),
                        'function_names': sorted(rep['functions'])[:400],
                        'coroutine_functions': sum(1 for f in rep['functions'].values() if f['coroutine']),
                        'yield_points': rep['yield_points'] // max(1, (q.T + 1) if q.mode == 'coro' else 1),
                        'stubs': rep['stubs_used'], 'asm': rep['asm'], 'intrinsics': rep['intrinsics'],
                        'spin_loops': rep['spin_loops'][:50], 'externals': rep['externals'],
                        'generated_c_lines': open(gen).read().count('\n')}
        R['t_build_s'] = round(time.time() - t0, 2)
        # translation validation
        eb = ec = None
        if q.validate:
            t1 = time.time()
            eb, ec, use_hook = build_native(q, wd, flags, hook_available)
            same, ended, samples, native_fail = validate_translation(q, eb, ec, use_hook, seed)
            R['translation_validation'] = {'runs_identical': same, 'ended': ended, 'samples': samples, 'hooked_atomics': use_hook,
                                           't_s': round(time.time() - t1, 2)}
            if not native_fail and q.crosscheck:
                t1b = time.time()
                R['translation_validation']['cbmc_native_crosscheck_runs'] = crosscheck_cbmc_native(q, wd, eb, seed, q.crosscheck)
                R['translation_validation']['cbmc_native_crosscheck_s'] = round(time.time() - t1b, 2)
            known_native = []
            if native_fail and is_known:
                known_native = [nf for nf in native_fail if is_known(nf['desc'])]
                native_fail = [nf for nf in native_fail if not is_known(nf['desc'])]
                R['known_native_failures'] = sorted(set(nf['desc'] for nf in known_native))   # listed finding reproduced natively; the solver still runs
            if native_fail:
                # the real code itself fails a harness assertion on a concrete input stream: no solver needed to call it a violation
                R['status'] = 'counterexample'; R['counterexamples'] = []; R['properties_checked'] = 0
                seen = set()
                for nf in native_fail:
                    if nf['desc'] in seen: continue
                    seen.add(nf['desc'])
                    rp = os.path.join(wd, 'replay_native_seed_%d.txt' % nf['seed'])
                    open(rp, 'w').write('# concrete failing run of the real code found by the translation-validation runs\n# replay: VERIF_SEED=%d VERIF_YIELD_DEN=%s <exe_real of query %s>\n' % (nf['seed'], 0 if q.mode != 'seq' and not use_hook else 3, q.name))
                    R['counterexamples'].append({'id': 'native.validation.assertion.seed%d' % nf['seed'], 'desc': nf['desc'], 'stream_len': 0, 'stream_file': rp, 'stream': [],
                                                 'real_log': nf['log'], 'reproduced_on_real_code': True, 'found_by': 'translation-validation run of the real code'})
                return R
        # cbmc
        t2 = time.time()
        cmd = cbmc_cmd(q, wd)
        R['cbmc_cmd'] = ' '.join(c.replace(wd, '$WD') for c in cmd)
        rc, out, dt = run(cmd, cwd=wd, timeout=q.timeout, mem_gb=q.mem_gb)
        open(os.path.join(wd, 'cbmc.out'), 'w').write(out)
        R['t_cbmc_s'] = round(dt, 2)
        if rc == -999:
            R['status'] = 'timeout'; raise Broken('cbmc timeout after %ds (query %s)' % (q.timeout, q.name))
        res, stats = parse_cbmc(out)
        R['cbmc'] = stats
        if 'ran out of memory' in out or 'VERIFICATION ERROR' in out:
            R['status'] = 'out_of_memory'; raise Broken('cbmc/SAT solver error or out of memory (limit %s GB) (query %s): %s' % (q.mem_gb, q.name, ' | '.join(l for l in out.split('\n') if 'memory' in l or 'ERROR' in l[:30])[:300]))
        if not res:
            raise Broken('cbmc produced no verdict (rc=%s, query %s):\n%s' % (rc, q.name, out[-2500:]))
        witness = [r for r in res if 'VERIF-WITNESS' in r['desc']]
        failed = [r for r in res if r['st'] != 'SUCCESS' and 'VERIF-WITNESS' not in r['desc']]
        if not witness or any(w['st'] != 'FAILURE' for w in witness):
            uf = [r['id'] for r in failed if '.unwind.' in r['id'] or 'unwinding' in r['desc']]
            raise Broken('witness assertion not reachable: the harness is vacuous (query %s)%s' % (q.name, (' - unwinding bound too small: ' + '; '.join(uf[:6])) if uf else ''))
        R['properties_checked'] = len(res) - len(witness)
        R['assertions'] = sorted(set(r['desc'] for r in res if r['id'].split('.')[-2:-1] == ['assertion'] and 'VERIF-WITNESS' not in r['desc']))[:60]
        unwind_fail = [r for r in failed if 'unwinding assertion' in r['desc'] or r['id'].find('.unwind.') >= 0 or 'recursion unwinding' in r['desc']]
        other = [r for r in failed if r not in unwind_fail]
        if unwind_fail and not other:
            raise Broken('unwinding bound too small (query %s): %s' % (q.name, '; '.join(r['id'] for r in unwind_fail[:6])))
        if not other:
            R['status'] = 'holds'
            return R
        # counterexample(s): replay
        R['status'] = 'counterexample'
        R['failed'] = [{'id': r['id'], 'desc': r['desc'], 'line': r['line']} for r in other]
        R['counterexamples'] = []
        for r in other[:4]:
            # second phase: un-sliced run for this one property to get the complete input/schedule stream
            rc2, out2, dt2 = run(cbmc_cmd(q, wd, trace=True, prop=r['id']), cwd=wd, timeout=q.timeout, mem_gb=q.mem_gb)
            open(os.path.join(wd, 'cbmc.trace.%s.out' % re.sub(r'[^A-Za-z0-9]', '_', r['id'])), 'w').write(out2)
            tr = split_traces(out2).get(r['id'], '')
            if not tr:
                R['counterexamples'].append({'id': r['id'], 'desc': r['desc'], 'stream_len': 0, 'stream_file': '', 'stream': [],
                                             'trace_error': 'no trace in second-phase run (rc=%s)' % rc2}); continue
            vals = nd_stream_from_trace(tr)
            rp = os.path.join(wd, 'replay_%s.txt' % re.sub(r'[^A-Za-z0-9]', '_', r['id']))
            open(rp, 'w').write('\n'.join(str(v) for v in vals) + '\n')
            ce = {'id': r['id'], 'desc': r['desc'], 'stream_len': len(vals), 'stream_file': rp, 'stream': vals[:64]}
            if ec is None and q.validate == 0:
                try: eb, ec, use_hook = build_native(q, wd, flags, hook_available)
                except Broken as e: ce['replay_build_error'] = str(e)[:500]
            if ec:
                rcr, orr = native_run(ec, replay=rp)
                ce['real_log'] = orr.strip().split('\n')[-8:]
                ce['reproduced_on_real_code'] = ('ASSERT-FAIL' in orr) or (rcr not in (0, 1))
                ce['real_rc'] = rcr
                rcg, org = native_run(eb, replay=rp)
                ce['generated_log'] = org.strip().split('\n')[-8:]
                if q.mode == 'coro' and not ce['reproduced_on_real_code'] and 'ASSERT-FAIL' in org:
                    # no atomics hook in the real build: a schedule cannot be forced on real threads; the schedule is replayed on the
                    # gcc build of the sequentialised translation (the program that translation validation ties to the real build)
                    ce['reproduced_on_real_code'] = True; ce['replayed_on'] = 'sequentialised translation (schedule + inputs from the cbmc trace)'
            R['counterexamples'].append(ce)
        return R
    finally:
        R['wall_s'] = round(time.time() - t0, 2)
        R['workdir'] = wd
        if not keep and R.get('status') == 'holds':
            shutil.rmtree(wd, ignore_errors=True)
