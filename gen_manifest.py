#!/usr/bin/env python3
"""Regenerates /verif/MANIFEST.json from checks.py (claimed properties) + NOT_APPLICABLE below."""
import json, os, sys
sys.path.insert(0, os.path.dirname(os.path.abspath(__file__)))
import checks

ALL = ['C%02d' % i for i in range(1, 29)]
NA = {
 'C02': 'DHP: guard blocks of 16 and retired blocks of 256 entries are compile-time constants and both come from free-list backed block allocators carved out of raw memory; the HP route (typed thread records + scan unit) does not transfer without rewriting those allocators, and a reclamation pass over 256-entry blocks is beyond the solver budget; not encoded',
 'C08': 'SegmentedQueue: segments are raw blocks (header + quasi_factor cells) allocated with a computed size; by the measured cost of MSQueue on the same HP environment (2 threads x 1 operation = 20 min) no useful bound is reachable; not encoded',
 'C10': 'FCDeque: needs the flat-combining kernel (boost::thread_specific_ptr publication records, wait strategies); not encoded',
 'C13': 'ordered lists: a harness over the real hazard-pointer environment was built (attic/c13_list.cpp.txt); even the sequential query with 2 solver-chosen calls on 2 keys ran into the 15 min cap / 16 GB (iterator + guard + marked-pointer code), so nothing is claimed',
 'C14': 'hash sets/maps during growth: built on the C13 lists (MichaelHashSet, SplitList) or on Feldman array nodes; out of reach for the same reason as C13; the addressing arithmetic is decided under C27/C28',
 'C15': 'skip lists / Ellen tree / Bronson AVL under every interleaving: out of reach (DESIGN.md 6)',
 'C16': 'cuckoo/striped sets with std::mutex lock arrays and resizes under every interleaving: out of reach (DESIGN.md 6)',
 'C17': 'resize/rehash of CuckooSet/StripedSet/SplitListSet/FeldmanHashSet: pointer-rich sequential scripts with symbolic hashes; by the C13 measurement (sequential list script of 2 calls: no verdict) out of reach; not encoded',
 'C18': 'quiescent well-formedness of lists/skip lists/trees: needs the containers of C13/C15 encoded; the MSPriorityQueue heap order at quiescence is checked under C11, the Treiber/MSQueue drains under C09/C06',
 'C19': 'thread-safe iterators: IterableList/FeldmanHashSet over HP, see C13',
 'C20': 'reference-model comparison of every container variant: sequential scripts are decided only for the structures claimed elsewhere (C07, C09, C11, C12 sequential queries, C21, C24); the list/tree/hash families are out of reach (C13)',
 'C23': 'flat-combining kernel: boost::thread_specific_ptr publication records and wait strategies (mutex/condvar) are outside the stub table; not encoded',
}

TEXT = {
 'C25': ('model_checking', 'bounded symbolic execution (cbmc) of the real bit helpers, bit-reversal variants and the three splitters, translated from clang IR: every 8/16/32/64-bit input and every cut width / start offset is a solver variable; sequences of up to 3 cuts; differential against bit-by-bit reference definitions'),
 'C26': ('model_checking', 'one-step induction over the representation invariant of bit_reverse_counter: arbitrary valid pre-state (all counts < 2^63) x real inc()/dec(), plus all inc/dec sequences of 8 (thorough 14) operations from the empty counter'),
 'C27': ('model_checking', 'full-width symbolic hash, table size 2^k for k in 0..63 and second bucket through the real regular_hash/dummy_hash/bucket_no/parent_bucket of the HP, nogc and RCU SplitListSet for each bit-reversal algorithm'),
 'C28': ('model_checking', 'symbolic head_bits/array_bits through the real metrics::make for 1/2/4/8-byte hashes, and the cut sequence of traverse on the real splitter for two symbolic hashes: exact tiling and divergence of distinct hashes'),
 'C22': ('model_checking', 'all schedules with at most K-1 context switches (before every atomic operation) of 2-3 threads x 1-2 critical sections on the real spin_lock / reentrant_spin_lock (nested lock, try_lock, try_lock(n)), pool_monitor (over a ghost lock pool: attachment, return-to-pool and mutual-exclusion oracles), injecting_monitor and lock_array (pow2 and mod policies, solver-chosen hints), by coroutine sequentialisation of the clang IR + cbmc'),
 'C01': ('model_checking', 'HP scheme: (1) the real basic_smr::classic_scan / inplace_scan run once from an arbitrary valid pre-state chosen by the solver (2-3 thread records, 1-2 hazard slots each holding any object or nothing, owned or detached records, any subset of 2-4 objects retired in any order): no protected object is disposed, every unprotected retired object is disposed exactly once, the retired array stays well-formed; (2) reader Guard::protect()+dereference || writer unlink+retire()+pass under every schedule with at most K-1 context switches'),
 'C03': ('model_checking', 'HP scheme only: same queries as C01 - exactly-once disposal by a pass for every retired object no guard protects, nothing disposed twice or unretired, and after the guards are dropped the next pass disposes the rest (DHP not encoded)'),
 'C09': ('model_checking', 'all schedules with at most K-1 context switches of 2 threads x 1 solver-chosen push/pop (3 threads and 2 operations per thread in the thorough tier) on the real container:: and intrusive::TreiberStack over the real hazard-pointer Guard/retire (pre-filled by solver choice; popped nodes are really freed by a pass right after the pop, so use-after-free shows as a deallocated-object dereference); history linearizable to a LIFO, items conserved; elimination back-off and FCStack are outside the claim'),
 'C06': ('model_checking', 'all schedules with at most K-1 context switches of 2 threads x 1 solver-chosen enqueue/dequeue on a queue pre-filled by solver choice, history linearizable to a FIFO (each item dequeued at most once, none invented, empty only if empty at some instant), items conserved: RWQueue in the quick tier; the real container::MSQueue, MoirQueue, BasketQueue and OptimisticQueue over the real hazard-pointer Guard/retire (hp_env.h, nodes really freed right after the dequeue) in the thorough tier (about 20 min per queue); FCQueue, DHP and more operations per thread are outside the claim'),
 'C11': ('model_checking', 'MSPriorityQueue (intrusive, heap capacities 1, 3, 7): every sequential script of 5-6 solver-chosen push/pop calls with solver-chosen, also equal, priorities against a multiset model (pop returns a maximal item, push fails exactly at capacity, size/empty/full, ordered drain); thorough tier (10-27 min per query): 2 threads push||push and pop||pop linearizable to a bounded max-priority queue with a well-formed heap at quiescence, under every schedule with at most K-1 context switches; FCPriorityQueue outside the claim'),
 'C04': ('model_checking', 'general_instant only: the real access_lock/access_unlock (with nesting, also two nested pairs inside one outer section), flip_and_wait/check_grace_period, synchronize(), retire_ptr() and the real cds::threading::Manager thread records; reader(s) || updater(s) (2-3 threads, 1-2 updates/reads each) under every schedule with at most K-1 context switches: an object read inside a read-side critical section is never disposed before the reader leaves the outermost section; general_buffered (harness exists, no verdict within 50 min), general_threaded and signal_buffered are outside the claim'),
 'C05': ('model_checking', 'same queries as C04, general_instant only: every retired object is disposed exactly once - before retire_ptr() returns and (still exactly once) by the time Destruct() returns - and nothing that was not retired is disposed; the buffered, threaded and signal flavours are outside the claim'),
 'C24': ('model_checking', 'all schedules with at most K-1 context switches of 2-3 threads x 1-2 solver-chosen allocate/deallocate steps on the real vyukov_queue_pool, lazy_vyukov_queue_pool, bounded_vyukov_queue_pool and pool_allocator (capacity 2, driven past capacity where the pool allows it) from a solver-chosen pre-state of held objects; ghost set of allocated objects (no double hand-out), quiescent re-allocation of every pooled object'),
 'C21': ('model_checking', 'all schedules with at most K-1 context switches of 2 threads x 1-2 get/put steps (3 threads x 1 in the thorough tier) on the real FreeList, TaggedFreeList and CachedFreeList (over FreeList and over TaggedFreeList) with 2 nodes (CachedFreeList: both harness threads hash to the same cache cell, so put||put, put||get and get||get race for one cell); initial ownership chosen by the solver; ghost-ownership oracle (no double hand-out), final drain (no node lost)'),
 'C12': ('model_checking', 'sequential: every script of 5-6 solver-chosen API calls with solver-chosen batch/record sizes on the real WeakRingBuffer<T> (capacity 4, static and dynamic buffer) and WeakRingBuffer<void> (32 bytes) against a FIFO/record model incl. the exact refusal conditions and record bytes; concurrent: producer || consumer, every schedule with at most K-1 context switches, history linearizable to the bounded FIFO (batch) / record FIFO'),
 'C07': ('model_checking', 'all schedules with at most K-1 context switches of 2-3 threads x 1-2 solver-chosen enqueue/dequeue operations on the real container:: and intrusive::VyukovMPMCCycleQueue (capacity 2-8, pre-rotated = wrapped around, pre-filled by solver choice; static/dynamic buffer; item counter; single-consumer front()/pop_front(); a value_cleaner that overwrites the cell), history checked for linearizability to a bounded FIFO inside the harness'),
}
NOTE = 'trusted: clang-14 IR as the encoding of the real code, /verif/ir2c translator (cross-checked on every run against the g++ build of the same harness on random value streams), cbmc 6.11 + SAT back end; bounds and cuts are listed in the evidence file (outside_the_claim) and in DESIGN.md 6'

def main():
    claimed = [p for p in ALL if p in checks.CHECKS and p not in NA]
    m = {
        'version': 1,
        'setup_cmd': 'python3 /verif/selfcheck.py',
        'hooks': {'guard': 'KHIZMAX_LIBCDS_VERIF', 'enable': 'no hook is needed by the checks claimed here (harnesses include the unmodified headers); -DKHIZMAX_LIBCDS_VERIF is reserved',
                  'baseline_off_cmd': 'cmake --build /repo/_build && ctest --test-dir /repo/_build -j8 --timeout 900',
                  'source_commits': [], 'add_only': True},
        'engines': [{'name': 'ir2c+cbmc', 'path': '/verif/run_check.py', 'serves_properties': claimed,
                     'kind_free_text': 'clang-14 LLVM IR of harness+real headers -> /verif/ir2c (IR->C, SEQ or coroutine-sequentialised CORO) -> cbmc 6.11 bounded symbolic execution + SAT; translation validation and counterexample replay against the g++ build of the real code'}],
        'checks': [], 'not_applicable': [],
        'notes': 'exit codes of run_check.py: 0 held (KNOWN-FINDING lines possible), 1 VIOLATION, 2 the check could not be carried out (timeout, bound too small, translation mismatch, vacuous harness)',
    }
    for p in claimed:
        lvl, txt = TEXT[p]
        m['checks'].append({
            'property_id': p, 'quick_cmd': 'python3 run_check.py %s quick' % p, 'thorough_cmd': 'python3 run_check.py %s thorough' % p,
            'evidence_file': '/verif/evidence/%s.json' % p, 'replay_cmd_template': 'python3 run_check.py %s quick --replay {path}' % p,
            'engine': 'ir2c+cbmc', 'level_claimed': {'category': lvl, 'text': txt, 'design_ref': 'DESIGN.md 6 (%s) and 11' % p},
            'level_note': NOTE, 'technique': 'bounded symbolic execution of the real code (IR->C->cbmc/SAT)'})
    for p in ALL:
        if p not in claimed: m['not_applicable'].append({'property_id': p, 'reason': NA[p]})
    json.dump(m, open(os.path.join(os.path.dirname(os.path.abspath(__file__)), 'MANIFEST.json'), 'w'), indent=1)
    print('claimed:', claimed)
main()
