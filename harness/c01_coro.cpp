// C01 / C03 (hazard pointers), interleaved: reader protect()+dereference  ||  writer unlink+retire()+scan()  [|| a thread that
// detaches, so that its retired array is adopted by help_scan].  The REAL Guard::protect / retire / scan / classic_scan /
// inplace_scan / help_scan / free_thread_data of cds/gc/hp.h + src/hp.cpp.  Thread records are typed objects built by the
// harness (same constructors, same list linkage as alloc_thread_data) and are handed to the library through a custom
// TLSManager - the documented extension point cds::gc::custom_HP<>.
// Oracles: an object is never disposed while a guard that protected it before the pass still protects it - observed as
// "the reader never sees disposed != 0 through its guard" (C01); after all threads are done and a final pass ran, every
// retired object was disposed exactly once (C03).
#include "verif.h"
#include <cassert>
#include <cds/gc/hp.h>          // built with -fno-access-control
#include <src/hp.cpp>

#ifndef HPCOUNT
#define HPCOUNT 1
#endif
#ifndef NUPD
#define NUPD 1
#endif
#ifndef NREAD
#define NREAD 1
#endif
#ifndef SCAN_TYPE
#define SCAN_TYPE inplace
#endif
#ifndef VERIF_T
#define VERIF_T 2
#endif
#define NOBJ ( NUPD + 1 )
#define RCAP ( NOBJ + 1 )

namespace hpd = cds::gc::hp::details;
using cds::gc::hp::details::basic_smr;
typedef basic_smr::thread_record rec_t;

static rec_t * recs[VERIF_T + 1];
struct harness_tls {
    static hpd::thread_data * getTLS() { return recs[__verif_tid_get()]; }
    static void setTLS( hpd::thread_data * p ) { recs[__verif_tid_get()] = static_cast< rec_t * >( p ); }
};
typedef cds::gc::custom_HP< harness_tls > gc_t;
typedef cds::gc::hp::custom_smr< harness_tls > smr_t;

struct obj { int disposed; int payload; };
static obj * objs[NOBJ];
static atomics::atomic< obj * > src;
static atomics::atomic< int > marker;
static bool saw_disposed, bad_payload;
static void disposer( void * p ) { ++static_cast< obj * >( p )->disposed; }

static __attribute__((noinline)) void reader_once()
{
    gc_t::Guard g;
    obj * p = g.protect( src );
    if ( p ) {
        if ( p->disposed != 0 ) saw_disposed = true;
        marker.fetch_add( 1, atomics::memory_order_relaxed );       // other threads run while the guard is held
        if ( p->disposed != 0 ) saw_disposed = true;
        if ( p->payload < 0 || p->payload >= NOBJ ) bad_payload = true;
    }
}
static __attribute__((noinline)) void writer_once( unsigned k )
{
    obj * old = src.exchange( objs[k + 1], atomics::memory_order_acq_rel );
    gc_t::retire( old, disposer );
}
#if MODEL_SCAN
// the reclamation pass replaced by the specification that the scan-unit queries (c01_scan.cpp) prove of the REAL classic_scan /
// inplace_scan for every pre-state: read all hazard slots of owned records, dispose exactly the retired objects found in none of
// them, keep the others.  Runs without preemption (harness code).  Everything else - Guard, protect(), retire(), the slots and the
// retired array - is the real code.
static __attribute__((noinline)) void model_pass( rec_t * me )
{
    cds::gc::details::retired_ptr * first = me->retired_.first(), * last = me->retired_.last();
    unsigned n = (unsigned)( last - first ), kept = 0;
    for ( unsigned i = 0; i < RCAP; ++i ) if ( i < n ) {
        bool prot = false;
        for ( int t = 1; t <= VERIF_T; ++t ) if ( recs[t] && recs[t]->owner_rec_.load( atomics::memory_order_relaxed ) != nullptr )
            for ( unsigned k = 0; k < HPCOUNT; ++k ) if ( recs[t]->hazards_[k].get( atomics::memory_order_relaxed ) == first[i].m_p ) prot = true;
        if ( prot ) { if ( kept != i ) first[kept] = first[i]; ++kept; }
        else first[i].free();
    }
    me->retired_.reset( kept );
}
static __attribute__((noinline)) void do_scan() { model_pass( recs[__verif_tid_get()] ); }
#else
static __attribute__((noinline)) void do_scan() { gc_t::scan(); }
#endif
#if MODEL_SCAN
static __attribute__((noinline)) void do_scan_final( int t ) { model_pass( recs[t] ); }
#else
static __attribute__((noinline)) void do_scan_final( int t ) { basic_smr& smr = basic_smr::instance(); smr.scan( recs[t] ); smr.help_scan( recs[t] ); smr.scan( recs[t] ); }
#endif
static __attribute__((noinline)) void do_detach() { basic_smr::instance().free_thread_data( recs[__verif_tid_get()], true ); recs[__verif_tid_get()] = nullptr; }

// memory for the SMR singleton and for classic_scan's hazard-pointer vector: fixed-size word arrays (set_memory_allocator is the
// library's own hook); a symbolic allocation size would make cbmc treat the block as an unbounded array
#define ARENA_WORDS 16
static void * h_alloc( size_t size ) { VASSERT( size <= ARENA_WORDS * sizeof( uintptr_t ), "harness allocator block large enough" ); return new uintptr_t[ARENA_WORDS]; }
static void h_free( void * p ) { delete[] reinterpret_cast< uintptr_t * >( p ); }

HFN void h_setup()
{
    basic_smr::set_memory_allocator( h_alloc, h_free );
    basic_smr::construct( HPCOUNT, VERIF_T, RCAP, hpd::SCAN_TYPE );
    basic_smr& smr = basic_smr::instance();
    for ( int i = 0; i < NOBJ; ++i ) { objs[i] = new obj; objs[i]->disposed = 0; objs[i]->payload = i; }
    src.store( objs[0], atomics::memory_order_relaxed );
    for ( int t = 1; t <= VERIF_T; ++t ) {
        hpd::guard * g = new hpd::guard[HPCOUNT];
        cds::gc::details::retired_ptr * r = new cds::gc::details::retired_ptr[RCAP];
        recs[t] = new rec_t( g, HPCOUNT, r, RCAP );
        recs[t]->next_ = smr.thread_list_.load( atomics::memory_order_relaxed );
        smr.thread_list_.store( recs[t], atomics::memory_order_relaxed );
    }
}
HFN void h_thread1() { for ( unsigned i = 0; i < NREAD; ++i ) reader_once(); }
#if ROLE2 == 0
// writer: unlink + retire, then a reclamation pass
HFN void h_thread2() { for ( unsigned k = 0; k < NUPD; ++k ) writer_once( k ); do_scan(); }
#else
// writer that retires and then DETACHES without a pass of its own... (its retired array must be adopted)
HFN void h_thread2() { for ( unsigned k = 0; k < NUPD; ++k ) writer_once( k ); do_detach(); }
#endif
#if VERIF_T >= 3
// a third thread that only runs reclamation passes / adopts orphaned retired arrays
HFN void h_thread3() { do_scan(); basic_smr::instance().help_scan( recs[3] ); }
#endif
HFN void h_check()
{
    VASSERT( !saw_disposed, "C01: the object a guard protects is not disposed while the guard is held" );
    VASSERT( !bad_payload, "guarded object intact" );
    for ( int i = 0; i < NOBJ; ++i ) VASSERT( objs[i]->disposed <= 1, "C03: no object disposed twice" );
    VASSERT( objs[NUPD]->disposed == 0, "the object still linked was never retired, so it is not disposed" );
    // quiescence: all guards released; every thread still attached runs a final pass (and adopts orphans)
    for ( int t = 1; t <= VERIF_T; ++t ) if ( recs[t] ) do_scan_final( t );
    for ( int i = 0; i < NUPD; ++i ) { __verif_observe( (uint64_t) objs[i]->disposed ); VASSERT( objs[i]->disposed == 1, "C03: every retired object is disposed exactly once after the final passes (including objects retired by a detached thread)" ); }
}
