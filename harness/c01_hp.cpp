// C01 / C03 (hazard pointers, reclamation pass): SEQ harness over the REAL src/hp.cpp (basic_smr::construct, alloc_thread_data,
// scan -> classic_scan / inplace_scan, help_scan, ~basic_smr) and the real Guard / retire of cds/gc/hp.h.
// Two logical threads (TLS identity switched by the harness through a custom TLSManager - the documented extension point):
//   reader  R: owns guards, protects a solver-chosen subset of the NOBJ objects
//   retirer W: retires the objects in a solver-chosen order, runs a reclamation pass
// Oracles: a guarded object is never passed to the disposer (C01); an object no guard protects is disposed by the pass,
// every retired object is disposed exactly once by the time the singleton is destroyed (C03).
#include "verif.h"
#include <cassert>
#include <cds/gc/hp.h>

#ifndef NOBJ
#define NOBJ 3
#endif
#ifndef SCAN_TYPE
#define SCAN_TYPE classic
#endif

namespace hpd = cds::gc::hp::details;
static int cur_thread;
static hpd::thread_data * tls_slot[3];
struct harness_tls {
    static hpd::thread_data * getTLS() { return tls_slot[cur_thread]; }
    static void setTLS( hpd::thread_data * p ) { tls_slot[cur_thread] = p; }
};
typedef cds::gc::custom_HP< harness_tls > gc_t;
typedef cds::gc::hp::custom_smr< harness_tls > smr_t;

struct obj { int disposed; int payload; };
static obj * objs[NOBJ];
static void disposer( void * p ) { obj * o = static_cast< obj * >( p ); ++o->disposed; }

HFN void h_main()
{
    smr_t::construct( HPCOUNT, 2, RETIRED_CAP, cds::gc::hp::details::SCAN_TYPE );
    for ( int i = 0; i < NOBJ; ++i ) { objs[i] = new obj; objs[i]->disposed = 0; objs[i]->payload = i; }

    // reader: attach, protect a solver-chosen subset (at most HPCOUNT guards)
    cur_thread = 1; smr_t::attach_thread();
    bool guarded[NOBJ];
    unsigned ng = 0;
    {
        gc_t::GuardArray< HPCOUNT > ga;
        for ( int i = 0; i < NOBJ; ++i ) {
            guarded[i] = nondet_bool() && ng < HPCOUNT;
            if ( guarded[i] ) { ga.assign( ng, objs[i] ); ++ng; }
        }

        // retirer: attach, retire all objects in a solver-chosen order
        cur_thread = 2; smr_t::attach_thread();
        bool done[NOBJ];
        for ( int i = 0; i < NOBJ; ++i ) done[i] = false;
        // retire order = the ORDER-th permutation of the objects, constant per query (a symbolic order makes std::sort inside
        // scan symbolic and cbmc gives no verdict); all NOBJ! orders are separate queries, the guarded subset stays symbolic
        unsigned order[NOBJ];
        { bool used[NOBJ]; for ( int i = 0; i < NOBJ; ++i ) used[i] = false;
          unsigned c = ORDER;
          for ( int j = 0; j < NOBJ; ++j ) { unsigned radix = NOBJ - j, d = c % radix; c /= radix; unsigned cnt = 0;
              for ( int m = 0; m < NOBJ; ++m ) if ( !used[m] ) { if ( cnt == d ) { order[j] = m; used[m] = true; break; } ++cnt; } } }
        for ( int k = 0; k < NOBJ; ++k ) {
            unsigned pick = order[k];
            VASSUME( !done[pick] );
            done[pick] = true;
            __verif_observe( pick );
            gc_t::retire( objs[pick], disposer );
            for ( int i = 0; i < NOBJ; ++i ) VASSERT( !( guarded[i] && objs[i]->disposed ), "C01: retire()/scan never disposes an object a guard protects" );
        }
        gc_t::scan();
        for ( int i = 0; i < NOBJ; ++i ) {
            __verif_observe( (uint64_t) objs[i]->disposed );
            VASSERT( !( guarded[i] && objs[i]->disposed ), "C01: a reclamation pass never disposes an object a guard protects" );
            VASSERT( guarded[i] || objs[i]->disposed == 1, "C03: a reclamation pass disposes (once) every retired object no guard protects" );
            VASSERT( objs[i]->disposed <= 1, "C03: no object is disposed twice" );
        }
        cur_thread = 1;
        // the reader can still use what it guards
        for ( int i = 0; i < NOBJ; ++i ) if ( guarded[i] ) VASSERT( objs[i]->payload == i && objs[i]->disposed == 0, "C01: guarded object still live" );
    }   // guards released
    cur_thread = 2;
    gc_t::scan();
    for ( int i = 0; i < NOBJ; ++i )
        VASSERT( objs[i]->disposed == 1, "C03: after the guards are released the next pass disposes the rest, each exactly once" );
    // detach both, destroy the singleton
    cur_thread = 2; smr_t::detach_thread();
    cur_thread = 1; smr_t::detach_thread();
    smr_t::destruct( true );
    for ( int i = 0; i < NOBJ; ++i )
        VASSERT( objs[i]->disposed == 1, "C03: every retired object disposed exactly once by the time the singleton is destroyed" );
}
