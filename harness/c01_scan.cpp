// C01 / C03 (hazard pointers), reclamation pass as a unit: the REAL basic_smr::classic_scan / inplace_scan / scan of src/hp.cpp,
// run once from an ARBITRARY valid pre-state chosen by the solver:
//   NTHR thread records (built by the harness from separately allocated, typed guard / retired arrays instead of the
//   single raw block create_thread_data() carves - same constructors, same list linkage), HPCOUNT hazard slots each;
//   every slot holds nullptr or one of the NOBJ objects (solver's choice); a solver-chosen number of the objects is retired
//   by thread record 0 in a solver-chosen order; one record may be "not owned" (detached): its slots must then be ignored.
// Oracles: an object some OWNED record's slot protects is not disposed by the pass (C01); an object no slot protects is
// disposed exactly once and leaves the retired array, the protected ones stay, in a well-formed array (C03).
#include "verif.h"
#include <cassert>
#include <cds/gc/hp.h>          // built with -fno-access-control: the harness reaches thread_record, thread_list_, classic_scan ...
#include <src/hp.cpp>

#ifndef NOBJ
#define NOBJ 3
#endif
#ifndef NTHR
#define NTHR 2
#endif
#ifndef HPCOUNT
#define HPCOUNT 2
#endif
#ifndef SCAN_TYPE
#define SCAN_TYPE classic
#endif
#define RCAP ( NOBJ + 1 )

namespace hpd = cds::gc::hp::details;
using cds::gc::hp::details::basic_smr;
typedef basic_smr::thread_record rec_t;

struct obj { int disposed; int payload; };
static obj * objs[NOBJ];
static void disposer( void * p ) { ++static_cast< obj * >( p )->disposed; }

HFN void h_main()
{
    basic_smr::construct( HPCOUNT, NTHR, RCAP, hpd::SCAN_TYPE );
    basic_smr& smr = basic_smr::instance();
    for ( int i = 0; i < NOBJ; ++i ) { objs[i] = new obj; objs[i]->disposed = 0; objs[i]->payload = i; }

    rec_t * recs[NTHR];
    for ( int t = 0; t < NTHR; ++t ) {
        hpd::guard * g = new hpd::guard[HPCOUNT];
        cds::gc::details::retired_ptr * r = new cds::gc::details::retired_ptr[RCAP];
        recs[t] = new rec_t( g, HPCOUNT, r, RCAP );
        recs[t]->next_ = smr.thread_list_.load( atomics::memory_order_relaxed );
        smr.thread_list_.store( recs[t], atomics::memory_order_relaxed );
    }
    // hazard slots
    bool guarded[NOBJ];
    for ( int i = 0; i < NOBJ; ++i ) guarded[i] = false;
    bool owned[NTHR];
    for ( int t = 0; t < NTHR; ++t ) {
        owned[t] = ( t == 0 ) || nondet_bool();           // record 0 is the scanning thread's own record
        if ( !owned[t] ) recs[t]->owner_rec_.store( nullptr, atomics::memory_order_relaxed );
        for ( int k = 0; k < HPCOUNT; ++k ) {
            unsigned c = (unsigned) nondet_range( 0, NOBJ );      // NOBJ = empty slot
            __verif_observe( c );
            if ( c < NOBJ ) {
                recs[t]->hazards_[k].set( objs[c] );
                if ( owned[t] ) guarded[c] = true;
            }
        }
    }
    // retired array of record 0: a solver-chosen subset in a solver-chosen order
    bool retired[NOBJ];
    for ( int i = 0; i < NOBJ; ++i ) retired[i] = false;
    unsigned nret = (unsigned) nondet_range( 0, NOBJ );
    for ( unsigned k = 0; k < NOBJ; ++k ) if ( k < nret ) {
        unsigned c = (unsigned) nondet_range( 0, NOBJ - 1 );
        VASSUME( !retired[c] );
        retired[c] = true;
        __verif_observe( c );
        bool pushed = recs[0]->retired_.push( cds::gc::details::retired_ptr( objs[c], disposer ));
        VASSERT( pushed || recs[0]->retired_.full(), "retired array accepts the pointer (push reports false only when the array became full)" );
    }

#ifdef VIA_SCAN
    smr.scan( recs[0] );                 // dispatch through scan_func_ (pointer to member)
#else
    smr.SCAN_FN( recs[0] );              // classic_scan or inplace_scan directly
#endif

    unsigned kept = 0;
    for ( int i = 0; i < NOBJ; ++i ) {
        __verif_observe( (uint64_t) objs[i]->disposed );
        VASSERT( !( guarded[i] && objs[i]->disposed ), "C01: a reclamation pass never disposes an object that a guard of an attached thread protects" );
        VASSERT( !( !retired[i] && objs[i]->disposed ), "an object that was never retired is not disposed" );
        VASSERT( !retired[i] || guarded[i] || objs[i]->disposed == 1, "C03: a reclamation pass disposes (exactly once) every retired object no guard protects" );
        VASSERT( objs[i]->disposed <= 1, "C03: no object is disposed twice" );
        if ( retired[i] && guarded[i] ) ++kept;
    }
    // the retired array holds exactly the protected ones, each once
    VASSERT( recs[0]->retired_.size() == kept, "the retired array keeps exactly the retired objects that are still protected" );
    unsigned idx = 0;
    for ( cds::gc::details::retired_ptr * it = recs[0]->retired_.first(); idx < NOBJ; ++idx ) if ( idx < kept ) {
        bool found = false;
        for ( int i = 0; i < NOBJ; ++i ) if ( it[idx].m_p == objs[i] && retired[i] && guarded[i] ) found = true;
        VASSERT( found, "every entry left in the retired array is a retired, still protected object" );
        VASSERT( ( it[idx].m_n & 1 ) == 0, "mark bits used by the in-place scan are cleared" );
        for ( unsigned j = 0; j < idx; ++j ) VASSERT( it[j].m_p != it[idx].m_p, "no duplicates in the retired array" );
    }
    // second pass after all guards are dropped: everything that was retired is disposed exactly once
    for ( int t = 0; t < NTHR; ++t ) recs[t]->hazards_.clear();
    smr.SCAN_FN( recs[0] );
    for ( int i = 0; i < NOBJ; ++i )
        VASSERT( objs[i]->disposed == ( retired[i] ? 1 : 0 ), "C03: once no guard protects them, the next pass disposes the remaining retired objects, each exactly once" );
    VASSERT( recs[0]->retired_.size() == 0, "retired array empty after the final pass" );
}
