// C04 / C05 (user-space RCU): general_instant (gpi) and general_buffered (gpb), the REAL gp_thread_gc::access_lock/unlock,
// gp_singleton::flip_and_wait / check_grace_period, synchronize(), retire_ptr() (+ the buffer of gpb) and the real
// cds::threading::Manager (C++11 thread_local flavour, -DCDS_THREADING_CXX11) that owns the per-thread RCU records.
// CORO harness: reader: lock [nested lock/unlock] read src, dereference, unlock  ||  updater: unlink (exchange) + retire_ptr()
// (gpi: synchronize + dispose at once; gpb: buffered, disposed when the buffer overflows or at synchronize/Destruct).
// Oracles: an object whose pointer the reader obtained inside its critical section is not disposed before the reader leaves
// the (outermost) critical section (C04); after Destruct every retired object was disposed exactly once, nothing else was (C05).
#include "verif.h"
#include <cassert>
#include <cds/sync/spinlock.h>
#include <cds/urcu/general_instant.h>
#include <cds/urcu/general_buffered.h>

#ifndef RCU_KIND
#define RCU_KIND 0
#endif
#ifndef NUPD
#define NUPD 1
#endif
#ifndef NREAD
#define NREAD 1
#endif
#ifndef VERIF_T
#define VERIF_T 2
#endif
#ifndef BUFCAP
#define BUFCAP 2
#endif
#define NOBJ ( NUPD * ( VERIF_T - 1 ) + 1 )

typedef cds::sync::spin_lock< cds::backoff::empty > lock_t;
#if RCU_KIND == 0
typedef cds::urcu::general_instant< lock_t, cds::backoff::empty > rcu_impl;
#else
typedef cds::urcu::general_buffered< cds::urcu::general_buffered<>::buffer_type, lock_t, cds::backoff::empty > rcu_impl;
#endif
typedef cds::urcu::gc< rcu_impl > rcu_t;

struct obj { int disposed; int payload; };
static obj * objs[NOBJ];
static atomics::atomic< obj * > src;
static atomics::atomic< int > marker;
static atomics::atomic< unsigned > next_obj;
static bool saw_disposed;
static bool was_retired[NOBJ];     // ghost: which objects were unlinked and handed to retire_ptr()
static void disposer( void * p ) { ++static_cast< obj * >( p )->disposed; }

static __attribute__((noinline)) void rd_lock() { rcu_t::access_lock(); }
static __attribute__((noinline)) void rd_unlock() { rcu_t::access_unlock(); }
static __attribute__((noinline)) void do_retire( obj * p ) { rcu_t::retire_ptr( p, disposer ); }
static __attribute__((noinline)) void do_sync() { rcu_t::synchronize(); }

static void reader()
{
    for ( unsigned i = 0; i < NREAD; ++i ) {
        bool nested = nondet_bool();
        rd_lock();
        obj * p = src.load( atomics::memory_order_acquire );
        if ( nested ) { rd_lock(); rd_unlock(); }            // an inner unlock must not end the critical section
#if NESTED2
        marker.fetch_add( 1, atomics::memory_order_relaxed );
        if ( nested ) { rd_lock(); rd_unlock(); }            // a second nested pair later in the same outer section
#endif
        if ( p->disposed != 0 ) saw_disposed = true;
        marker.fetch_add( 1, atomics::memory_order_relaxed ); // other threads run while the reader is inside
        if ( p->disposed != 0 ) saw_disposed = true;
        rd_unlock();
    }
}
static void updater()
{
    for ( unsigned k = 0; k < NUPD; ++k ) {
        unsigned n = next_obj.fetch_add( 1, atomics::memory_order_relaxed ) + 1;
        obj * old = src.exchange( objs[n], atomics::memory_order_acq_rel );     // unlink: `old` is unreachable from now on
        was_retired[old->payload] = true;
        do_retire( old );
    }
}

HFN void h_setup()
{
#if RCU_KIND == 0
    rcu_impl::Construct();
#else
    rcu_impl::Construct( BUFCAP );
#endif
    for ( int i = 0; i < NOBJ; ++i ) { objs[i] = new obj; objs[i]->disposed = 0; objs[i]->payload = i; }
    src.store( objs[0], atomics::memory_order_relaxed );
}
HFN void h_init() { cds::threading::Manager::attachThread(); }
HFN void h_thread1() { reader(); }
HFN void h_thread2() { updater(); }
#if VERIF_T >= 3
#if THIRD_IS_READER
HFN void h_thread3() { reader(); }
#else
HFN void h_thread3() { updater(); }
#endif
#endif
HFN void h_fini() { cds::threading::Manager::detachThread(); }
HFN void h_check()
{
    VASSERT( !saw_disposed, "C04: an object read inside a read-side critical section is not disposed before the reader leaves it" );
    for ( int i = 0; i < NOBJ; ++i ) { __verif_observe( (uint64_t) objs[i]->disposed ); VASSERT( objs[i]->disposed <= 1, "C05: no object disposed twice" ); }
#if RCU_KIND == 0
    for ( unsigned i = 0; i < NOBJ; ++i ) VASSERT( objs[i]->disposed == ( was_retired[i] ? 1 : 0 ), "general_instant: retire_ptr() disposes the object before it returns, and only retired objects" );
#endif
    rcu_impl::Destruct( true );
    for ( unsigned i = 0; i < NOBJ; ++i )
        VASSERT( objs[i]->disposed == ( was_retired[i] ? 1 : 0 ), "C05: by the time the RCU singleton is destroyed every retired object was disposed exactly once, nothing else was" );
}
