// C06: MSQueue / MoirQueue / BasketQueue / OptimisticQueue (value variants over the real hazard-pointer Guard/retire, see hp_env.h)
// and RWQueue are linearizable FIFO queues.  CORO harness: T threads x NOPS solver-chosen enqueue/dequeue operations on a queue
// pre-filled with a solver-chosen number of items; history checked against a sequential FIFO (lin.h): each item dequeued at most
// once, none invented, dequeue reports empty only if the queue was empty at some instant.  The dequeuing thread runs a
// reclamation pass right after its dequeue, so nodes are really freed while other threads may still hold (guarded) pointers.
#include "lin.h"
#include "hp_env.h"
#include <cds/container/msqueue.h>
#include <cds/container/moir_queue.h>
#include <cds/container/basket_queue.h>
#include <cds/container/optimistic_queue.h>
#include <cds/container/rwqueue.h>

#ifndef QUEUE_KIND
#define QUEUE_KIND 0
#endif
#ifndef NOPS
#define NOPS 1
#endif
#ifndef VERIF_T
#define VERIF_T 2
#endif
#ifndef PREMAX
#define PREMAX 2
#endif
#define NTOT ( VERIF_T * NOPS )
#define MAXITEMS ( PREMAX + NTOT )

typedef hp_env::gc gc_t;
#if QUEUE_KIND == 0
struct q_traits : public cds::container::msqueue::traits { typedef cds::backoff::empty back_off;
#if ITEM_COUNTER
    typedef cds::atomicity::item_counter item_counter;
#endif
};
typedef cds::container::MSQueue< gc_t, uint32_t, q_traits > queue_t;
#elif QUEUE_KIND == 1
struct q_traits : public cds::container::msqueue::traits { typedef cds::backoff::empty back_off; };
typedef cds::container::MoirQueue< gc_t, uint32_t, q_traits > queue_t;
#elif QUEUE_KIND == 2
struct q_traits : public cds::container::basket_queue::traits { typedef cds::backoff::empty back_off; };
typedef cds::container::BasketQueue< gc_t, uint32_t, q_traits > queue_t;
#elif QUEUE_KIND == 3
struct q_traits : public cds::container::optimistic_queue::traits { typedef cds::backoff::empty back_off; };
typedef cds::container::OptimisticQueue< gc_t, uint32_t, q_traits > queue_t;
#else
struct q_traits : public cds::container::rwqueue::traits { typedef cds::sync::spin_lock< cds::backoff::empty > lock_type; };
typedef cds::container::RWQueue< uint32_t, q_traits > queue_t;
#endif

struct fifo_spec {
    uint32_t a[MAXITEMS]; unsigned n;
    bool apply( op_rec const& o ) {
        if ( o.kind == 0 ) { if ( !o.ok ) return false; a[n++] = o.arg; return true; }       // enqueue always succeeds
        if ( n == 0 ) return !o.ok;                                                             // dequeue fails only on an empty queue
        if ( !o.ok || o.val != a[0] ) return false;
        for ( unsigned i = 0; i + 1 < MAXITEMS; ++i ) a[i] = a[i + 1];
        --n; return true;
    }
};

static queue_t * Q;
static op_rec ops[NTOT];
static uint8_t kinds[NTOT];
static fifo_spec init_state;

static __attribute__((noinline)) bool do_enq( uint32_t v ) { return Q->enqueue( v ); }
static __attribute__((noinline)) bool do_deq( uint32_t& v ) { return Q->dequeue( v ); }
static __attribute__((noinline)) void do_pass() { hp_env::pass( VERIF_T ); }

static void client( unsigned t )
{
    for ( unsigned i = 0; i < NOPS; ++i ) {
        op_rec& o = ops[t * NOPS + i];
        o.kind = kinds[t * NOPS + i];
        if ( o.kind == 0 ) { o.arg = 1000 + t * 10 + i; o.inv = __verif_clock(); o.ok = do_enq( o.arg ); o.res = __verif_clock(); }
        else { uint32_t v = 0; o.inv = __verif_clock(); o.ok = do_deq( v ); o.res = __verif_clock(); o.val = v; if ( o.ok ) do_pass(); }
    }
}

HFN void h_setup()
{
#if QUEUE_KIND == 4
    hp_env::setup( 1, VERIF_T, NTOT + PREMAX + 2 );
#else
    hp_env::setup( queue_t::c_nHazardPtrCount, VERIF_T, NTOT + PREMAX + 2 );
#endif
    static queue_t the_queue;
    Q = &the_queue;
    unsigned pre = (unsigned) nondet_range( 0, PREMAX );
    init_state.n = 0;
    for ( unsigned i = 0; i < PREMAX; ++i ) if ( i < pre ) { uint32_t v = 100 + i; bool a = do_enq( v ); VASSERT( a, "setup enqueue" ); init_state.a[init_state.n++] = v; }
    for ( unsigned i = 0; i < NTOT; ++i ) kinds[i] = nondet_bool() ? 1 : 0;
}
HFN void h_thread1() { client( 0 ); }
HFN void h_thread2() { client( 1 ); }
#if VERIF_T >= 3
HFN void h_thread3() { client( 2 ); }
#endif
HFN void h_check()
{
    for ( unsigned i = 0; i < NTOT; ++i ) { __verif_observe( ops[i].ok ); __verif_observe( ops[i].val ); }
    bool lin = linearizable< fifo_spec, NTOT >( ops, NTOT, init_state );
    VASSERT( lin, "history is linearizable to a sequential FIFO queue" );
    unsigned enq = init_state.n, deq = 0;
    for ( unsigned i = 0; i < NTOT; ++i ) if ( ops[i].ok ) { if ( ops[i].kind == 0 ) ++enq; else ++deq; }
#if ITEM_COUNTER
    VASSERT( Q->size() == enq - deq, "size() agrees with the contents" );
#endif
    unsigned left = 0; uint32_t v;
    for ( unsigned i = 0; i < MAXITEMS + 1; ++i ) if ( do_deq( v )) ++left;
    VASSERT( enq == deq + left, "items are conserved (none lost, none invented)" );
    VASSERT( Q->empty(), "queue empty after draining" );
    hp_env::pass_all( VERIF_T );
}
