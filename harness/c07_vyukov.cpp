// C07: VyukovMPMCCycleQueue is a linearizable bounded FIFO.  CORO harness: T threads x NOPS operations each (kind chosen
// by the solver), on a queue of capacity CAP that was pre-cycled ROTMAX times (wrap-around of the position counters, constant per query) and
// pre-filled with PRE items chosen by the solver.  Oracle: lin.h against a bounded FIFO of capacity CAP.
#include "lin.h"
#include <cassert>
#include <cds/container/vyukov_mpmc_cycle_queue.h>

#ifndef CAP
#define CAP 2
#endif
#ifndef NOPS
#define NOPS 2
#endif
#ifndef VERIF_T
#define VERIF_T 2
#endif
#define NTOT ( VERIF_T * NOPS )

#if CLEANER
// a value_cleaner that really does something (like the destructor of a non-trivial T would) and contains one atomic
// operation, i.e. one context-switch point: a cell released to producers before it was cleaned loses the new item
static atomics::atomic<int> cleaner_marker;
struct poison_cleaner {
    template <typename T> void operator()( T& v ) const { cleaner_marker.fetch_add( 1, atomics::memory_order_relaxed ); v = T( 0xDEAD ); }
};
#endif
struct q_traits : public cds::container::vyukov_queue::traits {
#if DYNAMIC_BUFFER
    typedef cds::opt::v::uninitialized_dynamic_buffer< void * > buffer;
#else
    typedef cds::opt::v::uninitialized_static_buffer< void *, CAP > buffer;
#endif
    typedef cds::backoff::empty back_off;
#if ITEM_COUNTER
    typedef cds::atomicity::item_counter item_counter;
#endif
#if CLEANER
    typedef poison_cleaner value_cleaner;
#endif
#if SINGLE_CONSUMER
    static constexpr bool const single_consumer = true;
#endif
};
#if INTRUSIVE
#include <cds/intrusive/vyukov_mpmc_cycle_queue.h>
struct iitem { uint32_t v; };
struct iq_traits : public cds::intrusive::vyukov_queue::traits {
#if DYNAMIC_BUFFER
    typedef cds::opt::v::uninitialized_dynamic_buffer< void * > buffer;
#else
    typedef cds::opt::v::uninitialized_static_buffer< void *, CAP > buffer;
#endif
    typedef cds::backoff::empty back_off;
};
typedef cds::intrusive::VyukovMPMCCycleQueue< iitem, iq_traits > queue_t;
static iitem pool_items[64];
static unsigned pool_next;
#else
typedef cds::container::VyukovMPMCCycleQueue< uint32_t, q_traits > queue_t;
#endif

struct fifo_spec {
    uint32_t a[CAP]; unsigned n;
    bool apply( op_rec const& o ) {
        if ( o.kind == 0 ) {                         // enqueue
            if ( n == CAP ) return !o.ok;            // may fail only when full
            if ( !o.ok ) return false;
            a[n++] = o.arg; return true;
        }
        if ( n == 0 ) return !o.ok;                  // dequeue may fail only when empty
        if ( !o.ok || o.val != a[0] ) return false;
        for ( unsigned i = 0; i + 1 < CAP; ++i ) a[i] = a[i + 1];
        --n; return true;
    }
};

static queue_t * Q;
static op_rec ops[NTOT];
static uint8_t kinds[NTOT];
static fifo_spec init_state;
static uint32_t next_val = 100;

#if INTRUSIVE
static __attribute__((noinline)) bool do_enq( uint32_t v ) { iitem * it = &pool_items[pool_next++]; it->v = v; return Q->enqueue( *it ); }
static __attribute__((noinline)) bool do_deq( uint32_t& v ) { iitem * it = Q->dequeue(); if ( it ) v = it->v; return it != nullptr; }
#else
static __attribute__((noinline)) bool do_enq( uint32_t v ) { return Q->enqueue( v ); }
#if SINGLE_CONSUMER
// the single consumer uses front() + pop_front()
static __attribute__((noinline)) bool do_deq( uint32_t& v ) { uint32_t * p = Q->front(); if ( !p ) return false; v = *p; bool ok = Q->pop_front(); VASSERT( ok, "pop_front() succeeds after front() returned an item (single consumer)" ); return true; }
#else
static __attribute__((noinline)) bool do_deq( uint32_t& v ) { return Q->dequeue( v ); }
#endif
#endif

static void client( unsigned t )
{
    for ( unsigned i = 0; i < NOPS; ++i ) {
        op_rec& o = ops[t * NOPS + i];
        o.kind = kinds[t * NOPS + i];
        if ( o.kind == 0 ) { o.arg = 1000 + t * 10 + i; o.inv = __verif_clock(); o.ok = do_enq( o.arg ); o.res = __verif_clock(); }
        else { uint32_t v = 0; o.inv = __verif_clock(); o.ok = do_deq( v ); o.res = __verif_clock(); o.val = v; }
    }
}

HFN void h_setup()
{
    static queue_t the_queue( CAP );
    Q = &the_queue;
    VASSERT( Q->capacity() == CAP, "capacity as configured" );
    unsigned rot = ROTMAX /* constant per query: position counters stay concrete */, pre = (unsigned) nondet_range( 0, CAP );
    for ( unsigned i = 0; i < ROTMAX; ++i ) if ( i < rot ) { uint32_t v = 0; bool a = do_enq( 7 ), b = do_deq( v ); VASSERT( a && b && v == 7, "setup cycle" ); }
    init_state.n = 0;
    for ( unsigned i = 0; i < CAP; ++i ) if ( i < pre ) { uint32_t v = next_val++; bool a = do_enq( v ); VASSERT( a, "setup fill" ); init_state.a[init_state.n++] = v; }
    for ( unsigned i = 0; i < NTOT; ++i ) kinds[i] = nondet_bool() ? 1 : 0;
#if SINGLE_CONSUMER
    for ( unsigned i = 0; i < NTOT; ++i ) kinds[i] = ( i / NOPS == VERIF_T - 1 ) ? 1 : 0;      // last thread is THE consumer, the others produce
#endif
}
HFN void h_thread1() { client( 0 ); }
HFN void h_thread2() { client( 1 ); }
#if VERIF_T >= 3
HFN void h_thread3() { client( 2 ); }
#endif
HFN void h_check()
{
    for ( unsigned i = 0; i < NTOT; ++i ) { __verif_observe( ops[i].ok ); __verif_observe( ops[i].val ); }
    bool lin = linearizable< fifo_spec, NTOT >( ops, NTOT, init_state );
    VASSERT( lin, "history is linearizable to a bounded FIFO queue of the configured capacity" );
    // quiescent content equals the model content of SOME linearization is implied; conservation is checked directly:
    unsigned enq_ok = 0, deq_ok = 0;
    for ( unsigned i = 0; i < NTOT; ++i ) { if ( ops[i].ok ) { if ( ops[i].kind == 0 ) ++enq_ok; else ++deq_ok; } }
    unsigned left = 0; uint32_t v; uint32_t drained[CAP + 1];
    for ( unsigned i = 0; i < CAP + 1; ++i ) if ( do_deq( v )) {
        // what is still inside must be something that was put in (pre-fill or a successful enqueue), each item once
        bool known = false;
        for ( unsigned k = 0; k < init_state.n; ++k ) if ( init_state.a[k] == v ) known = true;
        for ( unsigned k = 0; k < NTOT; ++k ) if ( ops[k].kind == 0 && ops[k].ok && ops[k].arg == v ) known = true;
        for ( unsigned k = 0; k < NTOT; ++k ) if ( ops[k].kind == 1 && ops[k].ok && ops[k].val == v ) known = false;     // already delivered
        for ( unsigned k = 0; k < left; ++k ) if ( drained[k] == v ) known = false;
        VASSERT( known, "drain: every item left in the queue was enqueued, was not delivered before and is intact (none invented, none twice)" );
        drained[left++] = v;
    }
    VASSERT( init_state.n + enq_ok == deq_ok + left, "items are conserved (none lost, none invented)" );
#if ITEM_COUNTER
    VASSERT( Q->size() == 0 && Q->empty(), "size()/empty() agree after draining" );
#endif
}
