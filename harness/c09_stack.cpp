// C09: TreiberStack (value variant container::TreiberStack and intrusive::TreiberStack over the real hazard-pointer Guard /
// retire, see hp_env.h) is a linearizable LIFO stack.  CORO harness: T threads x NOPS solver-chosen push/pop operations on a
// stack pre-filled with a solver-chosen number of items; history checked against a sequential LIFO (lin.h).  A popped node is
// retired by the container and freed for real by the pass that the popping thread runs right after its pop, so a thread that
// still touches the node without a guard is caught by cbmc's deallocated-object check (ABA / use-after-free oracle).
#include "lin.h"
#include "hp_env.h"
#include <cds/container/treiber_stack.h>
#include <cds/intrusive/treiber_stack.h>

#ifndef NOPS
#define NOPS 1
#endif
#ifndef VERIF_T
#define VERIF_T 2
#endif
#ifndef PREMAX
#define PREMAX 2
#endif
#define NTOT ( VERIF_T * NOPS )
#define MAXITEMS ( PREMAX + NTOT )

typedef hp_env::gc gc_t;
#if INTRUSIVE
struct item : public cds::intrusive::treiber_stack::node< gc_t > { uint32_t v; };
struct idisposer { void operator()( item * p ) const { delete p; } };
struct stack_traits : public cds::intrusive::treiber_stack::traits {
    typedef cds::backoff::empty back_off;
    typedef cds::intrusive::treiber_stack::base_hook< cds::opt::gc< gc_t > > hook;
    typedef idisposer disposer;
#if ITEM_COUNTER
    typedef cds::atomicity::item_counter item_counter;
#endif
};
typedef cds::intrusive::TreiberStack< gc_t, item, stack_traits > tstack_t;
#else
struct stack_traits : public cds::container::treiber_stack::traits {
    typedef cds::backoff::empty back_off;
#if ITEM_COUNTER
    typedef cds::atomicity::item_counter item_counter;
#endif
};
typedef cds::container::TreiberStack< gc_t, uint32_t, stack_traits > tstack_t;
#endif

struct lifo_spec {
    uint32_t a[MAXITEMS]; unsigned n;
    bool apply( op_rec const& o ) {
        if ( o.kind == 0 ) { if ( !o.ok ) return false; a[n++] = o.arg; return true; }       // push always succeeds
        if ( n == 0 ) return !o.ok;                                                             // pop fails only on an empty stack
        if ( !o.ok || o.val != a[n - 1] ) return false;
        --n; return true;
    }
};

static tstack_t * S;
static op_rec ops[NTOT];
static uint8_t kinds[NTOT];
static lifo_spec init_state;

#if INTRUSIVE
static __attribute__((noinline)) bool do_push( uint32_t v ) { item * it = new item; it->v = v; return S->push( *it ); }
static __attribute__((noinline)) bool do_pop( uint32_t& v ) { item * it = S->pop(); if ( !it ) return false; v = it->v; gc_t::retire< idisposer >( it ); return true; }
#else
static __attribute__((noinline)) bool do_push( uint32_t v ) { return S->push( v ); }
static __attribute__((noinline)) bool do_pop( uint32_t& v ) { return S->pop( v ); }
#endif
static __attribute__((noinline)) void do_pass() { hp_env::pass( VERIF_T ); }

static void client( unsigned t )
{
    for ( unsigned i = 0; i < NOPS; ++i ) {
        op_rec& o = ops[t * NOPS + i];
        o.kind = kinds[t * NOPS + i];
        if ( o.kind == 0 ) { o.arg = 1000 + t * 10 + i; o.inv = __verif_clock(); o.ok = do_push( o.arg ); o.res = __verif_clock(); }
        else { uint32_t v = 0; o.inv = __verif_clock(); o.ok = do_pop( v ); o.res = __verif_clock(); o.val = v; if ( o.ok ) do_pass(); }
    }
}

HFN void h_setup()
{
    hp_env::setup( 1, VERIF_T, NTOT + PREMAX + 1 );
    static tstack_t the_stack;
    S = &the_stack;
    unsigned pre = (unsigned) nondet_range( 0, PREMAX );
    init_state.n = 0;
    for ( unsigned i = 0; i < PREMAX; ++i ) if ( i < pre ) { uint32_t v = 100 + i; bool a = do_push( v ); VASSERT( a, "setup push" ); init_state.a[init_state.n++] = v; }
    for ( unsigned i = 0; i < NTOT; ++i ) kinds[i] = nondet_bool() ? 1 : 0;
}
HFN void h_thread1() { client( 0 ); }
HFN void h_thread2() { client( 1 ); }
#if VERIF_T >= 3
HFN void h_thread3() { client( 2 ); }
#endif
HFN void h_check()
{
    for ( unsigned i = 0; i < NTOT; ++i ) { __verif_observe( ops[i].ok ); __verif_observe( ops[i].val ); }
    bool lin = linearizable< lifo_spec, NTOT >( ops, NTOT, init_state );
    VASSERT( lin, "history is linearizable to a sequential LIFO stack" );
    unsigned pushed = init_state.n, popped = 0;
    for ( unsigned i = 0; i < NTOT; ++i ) if ( ops[i].ok ) { if ( ops[i].kind == 0 ) ++pushed; else ++popped; }
#if ITEM_COUNTER
    VASSERT( S->size() == pushed - popped, "size() agrees with the contents" );
#endif
    unsigned left = 0; uint32_t v;
    for ( unsigned i = 0; i < MAXITEMS + 1; ++i ) if ( do_pop( v )) ++left;
    VASSERT( pushed == popped + left, "items are conserved (none lost, none invented)" );
    VASSERT( S->empty(), "stack empty after draining" );
    hp_env::pass_all( VERIF_T );
}
