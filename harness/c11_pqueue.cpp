// C11: MSPriorityQueue never loses or duplicates an item, push fails only when capacity items are present, and histories in
// which no push overlaps a pop are linearizable to a bounded max-priority queue.
//   Q_SEQ   one thread, NOPS solver-chosen push(priority)/pop calls with solver-chosen priorities (equal ones allowed) against
//           a multiset model: pop returns an item of maximal priority among those present; push fails exactly at capacity
//   Q_CORO  T threads; MODE 0: all threads push, MODE 1: all threads pop (pre-filled), MODE 2: mixed (conservation only)
// heap buffer capacity HEAPSZ (power of two) => capacity() == HEAPSZ - 1 items
#include "lin.h"
#include <cassert>
#include <cds/intrusive/mspriority_queue.h>

#ifndef HEAPSZ
#define HEAPSZ 4
#endif
#define CAP ( HEAPSZ - 1 )
#ifndef NOPS
#define NOPS 4
#endif
#ifndef VERIF_T
#define VERIF_T 2
#endif
#ifndef PRIOMAX
#define PRIOMAX 3
#endif

struct item { int prio; int id; };
struct item_less { bool operator()( item const& a, item const& b ) const { return a.prio < b.prio; } };
struct pq_traits : public cds::intrusive::mspriority_queue::traits {
    typedef cds::opt::v::initialized_static_buffer< char, HEAPSZ > buffer;
    typedef item_less less;
    typedef cds::sync::spin_lock< cds::backoff::empty > lock_type;
    typedef cds::backoff::empty back_off;
};
typedef cds::intrusive::MSPriorityQueue< item, pq_traits > pq_t;
static pq_t * PQ;
#define MAXITEMS 8
static item items[MAXITEMS]; static unsigned nitems;
static uint8_t where[MAXITEMS];          // ghost: 0 = never pushed / outside, 1 = inside the queue, 2 = popped

static __attribute__((noinline)) bool do_push( item * it ) { return PQ->push( *it ); }
static __attribute__((noinline)) item * do_pop() { return PQ->pop(); }

#ifdef Q_SEQ
HFN void h_main()
{
    static pq_t pq( HEAPSZ );
    PQ = &pq;
    VASSERT( PQ->capacity() == CAP, "capacity() is the heap array size minus the unused slot 0" );
    unsigned inside = 0;
    for ( unsigned step = 0; step < NOPS; ++step ) {
        bool is_push = nondet_bool();
        __verif_observe( is_push );
        if ( is_push ) {
            item * it = &items[nitems]; it->id = (int) nitems; it->prio = (int) nondet_range( 0, PRIOMAX ); ++nitems;
            bool ok = do_push( it );
            __verif_observe( ok );
            VASSERT( ok == ( inside < CAP ), "push fails exactly when capacity items are present" );
            if ( ok ) { where[it->id] = 1; ++inside; }
        }
        else {
            item * p = do_pop();
            VASSERT( ( p != nullptr ) == ( inside > 0 ), "pop returns an item exactly when the queue is not empty" );
            if ( p ) {
                __verif_observe( (uint64_t) p->prio );
                VASSERT( p >= &items[0] && p < &items[MAXITEMS] && where[p->id] == 1, "pop returns an item that is inside (none invented, none twice)" );
                for ( unsigned i = 0; i < MAXITEMS; ++i ) if ( i < nitems && where[i] == 1 ) VASSERT( items[i].prio <= p->prio, "pop returns an item of maximal priority" );
                where[p->id] = 2; --inside;
            }
        }
        VASSERT( PQ->size() == inside && PQ->empty() == ( inside == 0 ) && PQ->full() == ( inside == CAP ), "size()/empty()/full() agree with the contents" );
    }
    // drain in non-increasing priority order, every item exactly once
    int last = PRIOMAX + 1;
    for ( unsigned k = 0; k < CAP + 1; ++k ) {
        item * p = do_pop();
        VASSERT( ( p != nullptr ) == ( inside > 0 ), "drain: pop succeeds exactly while items remain" );
        if ( p ) { VASSERT( where[p->id] == 1 && p->prio <= last, "drain: items come out once, in non-increasing priority order" ); last = p->prio; where[p->id] = 2; --inside; }
    }
    VASSERT( inside == 0, "no item lost" );
}
#endif

#ifdef Q_CORO
#ifndef PQ_MODE
#define PQ_MODE 0
#endif
#define NTOT ( VERIF_T * NOPS )
struct pq_spec {
    int prio[MAXITEMS]; unsigned n;          // multiset of priorities
    bool apply( op_rec const& o ) {
        if ( o.kind == 0 ) { if ( n >= CAP ) return !o.ok; if ( !o.ok ) return false; prio[n++] = (int) o.arg; return true; }
        if ( n == 0 ) return !o.ok;
        if ( !o.ok ) return false;
        int mx = -1; unsigned at = 0;
        for ( unsigned i = 0; i < MAXITEMS; ++i ) if ( i < n && prio[i] > mx ) { mx = prio[i]; at = i; }
        if ( (int) o.val != mx ) return false;
        prio[at] = prio[n - 1]; --n; return true;
    }
};
static op_rec ops[NTOT];
static uint8_t kinds[NTOT];
static pq_spec init_state;
static bool bad_pop;

static void client( unsigned t )
{
    for ( unsigned i = 0; i < NOPS; ++i ) {
        op_rec& o = ops[t * NOPS + i];
        o.kind = kinds[t * NOPS + i];
        if ( o.kind == 0 ) {
            item * it = &items[PRIOMAX + 1 + t * NOPS + i];          // items reserved for the concurrent phase (priorities chosen in h_setup)
            o.arg = (uint32_t) it->prio; o.inv = __verif_clock(); o.ok = do_push( it ); o.res = __verif_clock();
            if ( o.ok ) where[it->id] = 1;
        }
        else {
            o.inv = __verif_clock(); item * p = do_pop(); o.res = __verif_clock();
            o.ok = p != nullptr;
            if ( p ) { o.val = (uint32_t) p->prio; if ( p < &items[0] || p >= &items[MAXITEMS] || where[p->id] == 2 ) bad_pop = true; else where[p->id] = 2; }
        }
    }
}
HFN void h_setup()
{
    static pq_t pq( HEAPSZ );
    PQ = &pq;
    for ( unsigned i = 0; i < MAXITEMS; ++i ) { items[i].id = (int) i; items[i].prio = (int) nondet_range( 0, PRIOMAX ); }
    unsigned pre = (unsigned) nondet_range( 0, CAP );
    init_state.n = 0;
    for ( unsigned i = 0; i < CAP; ++i ) if ( i < pre ) { bool a = do_push( &items[i] ); VASSERT( a, "setup push" ); where[i] = 1; init_state.prio[init_state.n++] = items[i].prio; }
    for ( unsigned i = 0; i < NTOT; ++i ) {
#if PQ_MODE == 0
        kinds[i] = 0;
#elif PQ_MODE == 1
        kinds[i] = 1;
#else
        kinds[i] = nondet_bool() ? 1 : 0;
#endif
    }
}
HFN void h_thread1() { client( 0 ); }
HFN void h_thread2() { client( 1 ); }
#if VERIF_T >= 3
HFN void h_thread3() { client( 2 ); }
#endif
HFN void h_check()
{
    for ( unsigned i = 0; i < NTOT; ++i ) { __verif_observe( ops[i].ok ); __verif_observe( ops[i].val ); }
    VASSERT( !bad_pop, "pop never returns a foreign pointer or the same item twice" );
#if PQ_MODE != 2
    bool lin = linearizable< pq_spec, NTOT >( ops, NTOT, init_state );
    VASSERT( lin, "a history in which no push overlaps a pop is linearizable to a bounded max-priority queue" );
#endif
    unsigned inside = 0;
    for ( unsigned i = 0; i < MAXITEMS; ++i ) if ( where[i] == 1 ) ++inside;
    VASSERT( PQ->size() == inside, "size() agrees with the items pushed and not popped" );
    int last = PRIOMAX + 1; unsigned got = 0;
    for ( unsigned k = 0; k < CAP + 1; ++k ) {
        item * p = do_pop();
        if ( p ) { VASSERT( where[p->id] == 1 && p->prio <= last, "drain at quiescence: every remaining item comes out once, in non-increasing priority order (heap well-formed)" ); last = p->prio; where[p->id] = 2; ++got; }
    }
    VASSERT( got == inside, "no item lost, none duplicated" );
}
#endif
