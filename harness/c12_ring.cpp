// C12: WeakRingBuffer is an exact SPSC FIFO (typed ring: fixed-size elements and batches; WeakRingBuffer<void>: records of
// variable size).  Four query shapes selected by -D:
//   Q_SEQ_T   one thread, NOPS solver-chosen API calls with solver-chosen batch sizes on the typed ring, against an array model
//   Q_SEQ_V   one thread, NOPS solver-chosen push_back(size)/front/pop_front calls on WeakRingBuffer<void>, against a record model
//   Q_CORO_T  producer || consumer on the typed ring, linearizability to a bounded FIFO with batch operations (lin.h)
//   Q_CORO_V  producer || consumer on WeakRingBuffer<void>, linearizability to a FIFO of records (push may be refused)
#include "lin.h"
#include <cassert>
#include <string.h>
#include <cds/container/weak_ringbuffer.h>

#ifndef CAP
#define CAP 4
#endif
#ifndef NOPS
#define NOPS 4
#endif
#ifndef ROT
#define ROT 0
#endif

struct ring_traits : public cds::container::weak_ringbuffer::traits {
#if DYNAMIC_BUFFER
    typedef cds::opt::v::uninitialized_dynamic_buffer< void * > buffer;
#else
    typedef cds::opt::v::uninitialized_static_buffer< void *, CAP > buffer;
#endif
};

#if defined( Q_SEQ_T ) || defined( Q_CORO_T )
typedef cds::container::WeakRingBuffer< uint32_t, ring_traits > ring_t;
#ifndef REQCAP
#define REQCAP CAP          // capacity requested from the dynamic buffer (rounded up to a power of two = CAP)
#endif
static ring_t * R;
static uint32_t next_val = 100;      // values pushed are consecutive numbers: FIFO order == the popped stream is consecutive
static uint32_t next_pop = 100;

static __attribute__((noinline)) bool do_push_n( unsigned cnt ) { uint32_t a[CAP]; for ( unsigned i = 0; i < CAP; ++i ) a[i] = next_val + i; return R->push( a, cnt ); }
static __attribute__((noinline)) bool do_push_1() { return R->push( next_val ); }
static __attribute__((noinline)) bool do_pop_n( unsigned cnt, uint32_t * out ) { return R->pop( out, cnt ); }
static __attribute__((noinline)) bool do_pop_1( uint32_t * out ) { return R->pop( *out ); }
static __attribute__((noinline)) uint32_t * do_front() { return R->front(); }
static __attribute__((noinline)) bool do_pop_front() { return R->pop_front(); }
#endif

#ifdef Q_SEQ_T
HFN void h_main()
{
    static ring_t ring( REQCAP );
    R = &ring;
    VASSERT( R->capacity() == CAP, "capacity is the requested one rounded up to a power of two" );
    unsigned n = 0;                               // model: number of items; contents are next_pop .. next_pop+n-1
    for ( unsigned i = 0; i < ROT; ++i ) { uint32_t v; bool a = do_push_1(); ++next_val; bool b = do_pop_1( &v ); VASSERT( a && b && v == next_pop, "setup cycle" ); ++next_pop; }
    for ( unsigned step = 0; step < NOPS; ++step ) {
        unsigned kind = (unsigned) nondet_range( 0, 5 );
        __verif_observe( kind );
        if ( kind == 0 ) {
            unsigned cnt = (unsigned) nondet_range( 0, CAP - 1 );
            bool ok = do_push_n( cnt );
            __verif_observe( ok );
            VASSERT( ok == ( n + cnt <= CAP ), "push(batch) fails exactly when the free space is smaller than the batch" );
            if ( ok ) { n += cnt; next_val += cnt; }
        }
        else if ( kind == 1 ) {
            unsigned cnt = (unsigned) nondet_range( 0, CAP - 1 );
            uint32_t out[CAP];
            for ( unsigned i = 0; i < CAP; ++i ) out[i] = 0;
            bool ok = do_pop_n( cnt, out );
            __verif_observe( ok );
            VASSERT( ok == ( cnt <= n ), "pop(batch) fails exactly when fewer elements than requested are present" );
            if ( ok ) {
                for ( unsigned i = 0; i < CAP; ++i ) if ( i < cnt ) VASSERT( out[i] == next_pop + i, "pop(batch) delivers the oldest elements in push order" );
                n -= cnt; next_pop += cnt;
            }
        }
        else if ( kind == 2 ) {
            bool ok = do_push_1();
            VASSERT( ok == ( n < CAP ), "push(value) fails exactly when the ring is full" );
            if ( ok ) { ++n; ++next_val; }
        }
        else if ( kind == 3 ) {
            uint32_t v = 0;
            bool ok = do_pop_1( &v );
            VASSERT( ok == ( n > 0 ), "pop(value) fails exactly when the ring is empty" );
            if ( ok ) { VASSERT( v == next_pop, "pop(value) delivers the oldest element" ); --n; ++next_pop; }
        }
        else if ( kind == 4 ) {
            uint32_t * p = do_front();
            VASSERT( ( p != nullptr ) == ( n > 0 ), "front() is null exactly when the ring is empty" );
            if ( p ) VASSERT( *p == next_pop, "front() is the oldest element" );
            bool ok = do_pop_front();
            VASSERT( ok == ( n > 0 ), "pop_front() fails exactly when the ring is empty" );
            if ( ok ) { --n; ++next_pop; }
        }
        else {
            VASSERT( R->size() == n && R->empty() == ( n == 0 ) && R->full() == ( n == CAP ), "size()/empty()/full() agree with the contents" );
        }
    }
    // drain: everything still inside comes out in order, exactly once
    for ( unsigned i = 0; i < CAP + 1; ++i ) {
        uint32_t v = 0;
        bool ok = do_pop_1( &v );
        VASSERT( ok == ( n > 0 ), "drain: pop succeeds exactly while elements remain" );
        if ( ok ) { VASSERT( v == next_pop, "drain: order" ); --n; ++next_pop; }
    }
    VASSERT( next_pop == next_val && R->empty(), "every pushed element was delivered exactly once" );
}
#endif

#ifdef Q_CORO_T
#ifndef NP
#define NP 2
#endif
#ifndef NC
#define NC 2
#endif
#define NTOT ( NP + NC )
struct ring_spec {
    unsigned n; uint32_t first;
    bool apply( op_rec const& o ) {
        if ( o.kind == 0 ) {                              // push batch of o.arg elements (values are implied: consecutive)
            if ( n + o.arg > CAP ) return !o.ok;
            if ( !o.ok ) return false;
            n += o.arg; return true;
        }
        if ( o.arg > n ) return !o.ok;                    // pop batch of o.arg elements, o.val = first value delivered
        if ( !o.ok ) return false;
        if ( o.arg > 0 && o.val != first ) return false;
        first += o.arg; n -= o.arg; return true;
    }
};
static op_rec ops[NTOT];
static unsigned cnts[NTOT];
static uint8_t single[NTOT];
static ring_spec init_state;
static bool order_ok = true;

HFN void h_setup()
{
    static ring_t ring( REQCAP );
    R = &ring;
    for ( unsigned i = 0; i < ROT; ++i ) { uint32_t v; bool a = do_push_1(); ++next_val; bool b = do_pop_1( &v ); VASSERT( a && b && v == next_pop, "setup cycle" ); ++next_pop; }
    unsigned pre = (unsigned) nondet_range( 0, CAP );
    for ( unsigned i = 0; i < CAP; ++i ) if ( i < pre ) { bool a = do_push_1(); VASSERT( a, "setup fill" ); ++next_val; }
    init_state.n = pre; init_state.first = next_pop;
    for ( unsigned i = 0; i < NTOT; ++i ) { cnts[i] = (unsigned) nondet_range( 0, CAP - 1 ); single[i] = nondet_bool(); }
}
HFN void h_thread1()      // producer
{
    for ( unsigned i = 0; i < NP; ++i ) {
        op_rec& o = ops[i];
        o.kind = 0;
        if ( single[i] ) { o.arg = 1; o.inv = __verif_clock(); o.ok = do_push_1(); o.res = __verif_clock(); }
        else { o.arg = cnts[i]; o.inv = __verif_clock(); o.ok = do_push_n( cnts[i] ); o.res = __verif_clock(); }
        if ( o.ok ) next_val += o.arg;
    }
}
HFN void h_thread2()      // consumer
{
    for ( unsigned i = 0; i < NC; ++i ) {
        op_rec& o = ops[NP + i];
        o.kind = 1;
        uint32_t out[CAP];
        for ( unsigned k = 0; k < CAP; ++k ) out[k] = 0;
        if ( single[NP + i] ) { o.arg = 1; o.inv = __verif_clock(); o.ok = do_pop_1( out ); o.res = __verif_clock(); }
        else { o.arg = cnts[NP + i]; o.inv = __verif_clock(); o.ok = do_pop_n( cnts[NP + i], out ); o.res = __verif_clock(); }
        o.val = out[0];
        if ( o.ok ) for ( unsigned k = 0; k < CAP; ++k ) if ( k < o.arg && out[k] != out[0] + k ) order_ok = false;
    }
}
HFN void h_check()
{
    for ( unsigned i = 0; i < NTOT; ++i ) { __verif_observe( ops[i].ok ); __verif_observe( ops[i].val ); }
    VASSERT( order_ok, "elements of one popped batch are consecutive in push order" );
    bool lin = linearizable< ring_spec, NTOT >( ops, NTOT, init_state );
    VASSERT( lin, "history is linearizable to a bounded FIFO with batch push/pop (fail only if not enough space / elements at some instant)" );
    unsigned pushed = init_state.n, popped = 0;
    for ( unsigned i = 0; i < NTOT; ++i ) if ( ops[i].ok ) { if ( ops[i].kind == 0 ) pushed += ops[i].arg; else popped += ops[i].arg; }
    VASSERT( R->size() == pushed - popped, "elements are conserved" );
    uint32_t expect = init_state.first + popped;
    for ( unsigned i = 0; i < CAP + 1; ++i ) { uint32_t v = 0; if ( do_pop_1( &v )) { VASSERT( v == expect, "drain: remaining elements in push order" ); ++expect; } }
    VASSERT( expect == next_val, "every pushed element is delivered exactly once" );
}
#endif

// ---------------------------------------------------------------------------------------------------- WeakRingBuffer<void>
#if defined( Q_SEQ_V ) || defined( Q_CORO_V )
typedef cds::container::WeakRingBuffer< void, ring_traits > vring_t;
static vring_t * V;
#define MAXREC ( CAP - 16 )                      // largest size with calc_real_size(size) < capacity (documented precondition of back())
static inline unsigned real_size( unsigned sz ) { return (( sz + 7u ) & ~7u ) + 8u; }

static __attribute__((noinline)) bool do_vpush( unsigned sz, uint8_t seed )
{
    uint8_t data[MAXREC];
    for ( unsigned i = 0; i < MAXREC; ++i ) data[i] = (uint8_t)( seed + i );
    return V->push_back( data, sz );
}
struct vfront { void * p; size_t sz; };
static __attribute__((noinline)) void do_vfront( vfront * out ) { auto r = V->front(); out->p = r.first; out->sz = r.second; }
static __attribute__((noinline)) bool do_vpop_front() { return V->pop_front(); }
static bool bytes_ok( void * p, unsigned sz, uint8_t seed )
{
    bool ok = true; uint8_t * b = static_cast< uint8_t * >( p );
    for ( unsigned i = 0; i < MAXREC; ++i ) if ( i < sz && b[i] != (uint8_t)( seed + i )) ok = false;
    return ok;
}
#endif

#ifdef Q_SEQ_V
// reference model: a ring of contiguous records.  A record of `size` bytes occupies real_size(size) bytes; a record never
// wraps: if it does not fit between the write position and the end of the buffer, the rest of the buffer becomes an unused
// "tail" that the consumer skips when it meets it.  entries[]: kind 0 = record, 1 = tail.
struct ment { uint8_t tail; unsigned sz; uint8_t seed; };
#define MAXENT ( 2 * NOPS + 2 )
HFN void h_main()
{
    static vring_t ring( CAP );
    V = &ring;
    VASSERT( V->capacity() == CAP, "capacity as configured" );
    ment ent[MAXENT]; unsigned head = 0, tl = 0;      // model queue of entries
    unsigned used = 0, boff = 0;                      // bytes in use (records + unconsumed tails), write offset
    unsigned pushed = 0, delivered = 0;
    for ( unsigned step = 0; step < NOPS; ++step ) {
        bool is_push = nondet_bool();
        __verif_observe( is_push );
        if ( is_push ) {
            unsigned sz = (unsigned) nondet_range( 1, MAXREC );
            uint8_t seed = nondet_u8();
            unsigned rs = real_size( sz ), tail = CAP - boff;
            unsigned need = tail >= rs ? rs : tail + rs;
            bool ok = do_vpush( sz, seed );
            __verif_observe( ok );
            VASSERT( ok == ( CAP - used >= need ), "push_back(size) fails exactly when the free space is smaller than the record (plus the tail it has to skip)" );
#ifdef STRICT_SPACE
            VASSERT( ok || CAP - used < rs, "push_back(size) fails only if the free space is smaller than real_size(size)" );
#endif
            if ( ok ) {
                if ( tail < rs ) { ent[tl].tail = 1; ent[tl].sz = tail; ++tl; boff = 0; }
                ent[tl].tail = 0; ent[tl].sz = sz; ent[tl].seed = seed; ++tl;
                used += need; boff = ( boff + rs ) % CAP; ++pushed;
            }
        }
        else {
            vfront f; do_vfront( &f );
            if ( head < tl && ent[head].tail ) { used -= ent[head].sz; ++head; }      // front() consumes an unused tail it meets
            bool have = head < tl;
            VASSERT( ( f.p != nullptr ) == have, "front() is empty exactly when no record is present" );
            if ( have ) {
                __verif_observe( f.sz );
                VASSERT( f.sz == ent[head].sz, "front() returns the oldest record with its exact size" );
                VASSERT( bytes_ok( f.p, ent[head].sz, ent[head].seed ), "front() returns the oldest record with its exact bytes" );
            }
            if ( nondet_bool()) {
                bool ok = do_vpop_front();
                VASSERT( ok == have, "pop_front() fails exactly when no record is present" );
                if ( ok ) { used -= real_size( ent[head].sz ); ++head; ++delivered; }
            }
        }
    }
    // drain
    for ( unsigned i = 0; i < NOPS + 1; ++i ) {
        vfront f; do_vfront( &f );
        if ( head < tl && ent[head].tail ) { used -= ent[head].sz; ++head; }
        bool have = head < tl;
        VASSERT( ( f.p != nullptr ) == have, "drain: front() is empty exactly when no record is left" );
        if ( have ) {
            VASSERT( f.sz == ent[head].sz && bytes_ok( f.p, ent[head].sz, ent[head].seed ), "drain: records come out in push order with exact size and bytes" );
            bool ok = do_vpop_front(); VASSERT( ok, "drain: pop_front" );
            used -= real_size( ent[head].sz ); ++head; ++delivered;
        }
    }
    VASSERT( delivered == pushed && used == 0 && V->empty(), "every pushed record was delivered exactly once" );
}
#endif

#ifdef Q_CORO_V
#ifndef NP
#define NP 2
#endif
#ifndef NC
#define NC 2
#endif
#define NTOT ( NP + NC )
// FIFO of records; a push may be refused (the exact refusal condition is decided by Q_SEQ_V), a consumer step =
// front() [+ pop_front() if a record was returned]
struct vspec {
    unsigned sz[NP + 2]; uint8_t seed[NP + 2]; unsigned n;
    bool apply( op_rec const& o ) {
        if ( o.kind == 0 ) { if ( !o.ok ) return true; sz[n] = o.arg; seed[n] = (uint8_t) o.val; ++n; return true; }
        if ( n == 0 ) return !o.ok;
        if ( !o.ok || o.arg != sz[0] || (uint8_t) o.val != seed[0] ) return false;
        for ( unsigned i = 0; i + 1 < NP + 2; ++i ) { sz[i] = sz[i + 1]; seed[i] = seed[i + 1]; }
        --n; return true;
    }
};
static op_rec ops[NTOT];
static unsigned szs[NP]; static uint8_t seeds[NP];
static vspec init_state;
static bool content_ok = true;
HFN void h_setup()
{
    static vring_t ring( CAP );
    V = &ring;
    // pre-position the write offset (solver-chosen multiple of 8 reached by a real push/pop cycle), so that records meet the end of the buffer
    if ( nondet_bool()) { unsigned sz = (unsigned) nondet_range( 1, MAXREC ); bool a = do_vpush( sz, 0 ); vfront f; do_vfront( &f ); bool b = do_vpop_front(); VASSERT( a && b && f.sz == sz, "setup cycle" ); }
    init_state.n = 0;
    if ( nondet_bool()) { unsigned sz = (unsigned) nondet_range( 1, MAXREC ); uint8_t sd = nondet_u8(); bool a = do_vpush( sz, sd ); VASSUME( a ); init_state.sz[0] = sz; init_state.seed[0] = sd; init_state.n = 1; }
    for ( unsigned i = 0; i < NP; ++i ) { szs[i] = (unsigned) nondet_range( 1, MAXREC ); seeds[i] = nondet_u8(); }
}
HFN void h_thread1()
{
    for ( unsigned i = 0; i < NP; ++i ) {
        op_rec& o = ops[i]; o.kind = 0; o.arg = szs[i]; o.val = seeds[i];
        o.inv = __verif_clock(); o.ok = do_vpush( szs[i], seeds[i] ); o.res = __verif_clock();
    }
}
HFN void h_thread2()
{
    for ( unsigned i = 0; i < NC; ++i ) {
        op_rec& o = ops[NP + i]; o.kind = 1;
        vfront f;
        o.inv = __verif_clock(); do_vfront( &f );
        o.ok = f.p != nullptr;
        if ( o.ok ) {
            o.arg = (uint32_t) f.sz;
            uint8_t * b = static_cast< uint8_t * >( f.p );
            o.val = b[0];
            if ( f.sz < 1 || f.sz > MAXREC || !bytes_ok( f.p, (unsigned) f.sz, b[0] )) content_ok = false;
            bool p = do_vpop_front();
            if ( !p ) content_ok = false;
        }
        o.res = __verif_clock();
    }
}
HFN void h_check()
{
    for ( unsigned i = 0; i < NTOT; ++i ) { __verif_observe( ops[i].ok ); __verif_observe( ops[i].arg ); }
    VASSERT( content_ok, "a record returned by front() has a legal size, intact bytes, and pop_front() then succeeds" );
    bool lin = linearizable< vspec, NTOT >( ops, NTOT, init_state );
    VASSERT( lin, "history is linearizable to a FIFO of variable-size records (each delivered once, in push order, exact size and bytes; empty only if empty at some instant)" );
    unsigned pushed = init_state.n, popped = 0;
    for ( unsigned i = 0; i < NTOT; ++i ) if ( ops[i].ok ) { if ( ops[i].kind == 0 ) ++pushed; else ++popped; }
    unsigned left = 0;
    for ( unsigned i = 0; i < NP + 2; ++i ) { vfront f; do_vfront( &f ); if ( f.p ) { ++left; do_vpop_front(); } }
    VASSERT( pushed == popped + left, "records are conserved" );
}
#endif
