// C21: FreeList / TaggedFreeList / CachedFreeList behave as a concurrent bag: a node obtained by get() is not returned by
// another get() until it was put() back; at quiescence every node that is inside can be obtained again.
// CORO harness: NNODES nodes; the solver chooses which of them start inside the list and which are held by which thread;
// every thread runs NOPS solver-chosen steps (get, or put of a node it holds).  Ghost ownership: owner[i] = 0 inside the
// list, t = held by thread t.  Oracles: get() never returns a node whose ghost owner is a thread (double hand-out), never
// returns a foreign pointer; final sequential drain returns exactly the nodes whose ghost owner is 0 (none lost, none twice).
#include "verif.h"
#include <cassert>
#include <cds/intrusive/free_list.h>
#include <cds/intrusive/free_list_tagged.h>
#include <cds/intrusive/free_list_cached.h>

#ifndef LIST_KIND
#define LIST_KIND 0
#endif
#ifndef NNODES
#define NNODES 2
#endif
#ifndef NOPS
#define NOPS 2
#endif
#ifndef VERIF_T
#define VERIF_T 2
#endif

#if LIST_KIND == 0
typedef cds::intrusive::FreeList list_t;
#elif LIST_KIND == 1
typedef cds::intrusive::TaggedFreeList list_t;
#elif LIST_KIND == 2
typedef cds::intrusive::CachedFreeList< cds::intrusive::FreeList, 4, 8 > list_t;
#else
typedef cds::intrusive::CachedFreeList< cds::intrusive::TaggedFreeList, 4, 8 > list_t;
#endif
typedef list_t::node node_t;

struct item : public node_t { int id; };
static item * nodes[NNODES];       // separately allocated objects (as in real use); an array of structs addressed through symbolic
                                    // pointers makes cbmc rewrite every field of every node on each store
static uint8_t owner[NNODES];          // ghost
static list_t * L;
static uint8_t script[VERIF_T][NOPS];  // 0 = get, 1 = put
static bool bad_ptr, double_handout;

static __attribute__((noinline)) node_t * do_get() { return L->get(); }
static __attribute__((noinline)) void do_put( node_t * p ) { L->put( p ); }

static int index_of( node_t * p )
{
    int r = -1;
    for ( int i = 0; i < NNODES; ++i ) if ( p == static_cast< node_t * >( nodes[i] )) r = i;
    return r;
}

static void worker( unsigned t )       // t = 1..VERIF_T
{
    for ( unsigned s = 0; s < NOPS; ++s ) {
        if ( script[t - 1][s] == 0 ) {
            node_t * p = do_get();
            if ( p ) {
                int i = index_of( p );
                if ( i < 0 ) bad_ptr = true;
                else { if ( owner[i] != 0 ) double_handout = true; owner[i] = (uint8_t) t; }
            }
        }
        else {
            int mine = -1;
            for ( int i = 0; i < NNODES; ++i ) if ( owner[i] == t ) mine = i;
            if ( mine >= 0 ) { owner[mine] = 0; do_put( nodes[mine] ); }     // ownership is given up before the call
        }
    }
}

HFN void h_setup()
{
    static list_t the_list;
    L = &the_list;
    for ( int i = 0; i < NNODES; ++i ) {
        nodes[i] = new item; nodes[i]->id = i;
        owner[i] = (uint8_t) nondet_range( 0, VERIF_T );
        __verif_observe( owner[i] );
    }
#ifdef SCRIPT
    // concrete step kinds (bit t*NOPS+s of SCRIPT: 1 = put); the enumeration over SCRIPT values is done by separate queries
    for ( unsigned t = 0; t < VERIF_T; ++t ) for ( unsigned s = 0; s < NOPS; ++s ) script[t][s] = ( SCRIPT >> ( t * NOPS + s )) & 1;
#else
    for ( unsigned t = 0; t < VERIF_T; ++t ) for ( unsigned s = 0; s < NOPS; ++s ) script[t][s] = nondet_bool() ? 1 : 0;
#endif
}
// initial population: a node that starts inside is put by a thread chosen by the solver (matters for the per-thread cache)
HFN void h_init()
{
    unsigned me = __verif_tid_get();
    for ( int i = 0; i < NNODES; ++i ) if ( owner[i] == 0 && (unsigned)( i % VERIF_T ) + 1 == me ) do_put( nodes[i] );
}
HFN void h_thread1() { worker( 1 ); }
HFN void h_thread2() { worker( 2 ); }
#if VERIF_T >= 3
HFN void h_thread3() { worker( 3 ); }
#endif
HFN void h_check()
{
    VASSERT( !bad_ptr, "get() returns only nodes that were put" );
    VASSERT( !double_handout, "get() never returns a node that another holder has not put back" );
    unsigned inside = 0;
    for ( int i = 0; i < NNODES; ++i ) if ( owner[i] == 0 ) ++inside;
    unsigned got = 0; bool again = false;
    bool seen[NNODES];
    for ( int i = 0; i < NNODES; ++i ) seen[i] = false;
    for ( int k = 0; k < NNODES + 1; ++k ) {
        node_t * p = do_get();
        if ( p ) {
            int i = index_of( p );
            VASSERT( i >= 0, "drain: get() returns only nodes that were put" );
            if ( i >= 0 ) { if ( seen[i] || owner[i] != 0 ) again = true; seen[i] = true; }
            ++got;
        }
    }
    __verif_observe( got );
    VASSERT( !again, "drain: no node is handed out twice, none that is still held" );
    VASSERT( got == inside, "drain at quiescence: every node that was put and not taken out can be obtained again (none lost)" );
    VASSERT( L->empty(), "list empty after the drain" );
}
