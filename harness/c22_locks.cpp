// C22: spin locks provide mutual exclusion.  CORO harness: T threads (h_thread1..T), each enters the critical section
// NOPS times; a context switch may happen before every atomic operation of the real lock code and before the marker
// atomic inside the critical section.  Oracles: occupancy counter (== 1 inside), lost-update counter.
#include "verif.h"
#include <cassert>
#include <cds/sync/spinlock.h>

#ifndef NOPS
#define NOPS 1
#endif
#ifndef LOCK_KIND
#define LOCK_KIND 0
#endif

#if LOCK_KIND == 0
typedef cds::sync::spin_lock< cds::backoff::empty > lock_t;
#elif LOCK_KIND == 1
typedef cds::sync::reentrant_spin_lock< unsigned, cds::backoff::empty > lock_t;
#endif

static lock_t * L;
static int occ, shared_counter, entered;
static atomics::atomic<int> marker;       // an atomic inside the critical section == a context-switch point there

// the real lock()/unlock() are inlined into these wrappers only: the spin-cut table names them
static __attribute__((noinline)) void do_lock() { L->lock(); }
static __attribute__((noinline)) bool do_try_lock() { return L->try_lock(); }
static __attribute__((noinline)) void do_unlock() { L->unlock(); }
#if LOCK_KIND == 1
static __attribute__((noinline)) bool do_try_lock_n() { return L->try_lock( 2 ); }
#endif

static void critical()
{
    ++occ; ++entered;
    VASSERT( occ == 1, "at most one thread inside the critical section" );
    int t = shared_counter;
    marker.fetch_add( 1, atomics::memory_order_relaxed );           // other threads may run here
    VASSERT( occ == 1, "still alone in the critical section after a context switch" );
    shared_counter = t + 1;
    --occ;
}

static void worker()
{
    for ( int i = 0; i < NOPS; ++i ) {
#if USE_TRYLOCK
        if ( !do_try_lock()) continue;
#else
        do_lock();
#endif
#if LOCK_KIND == 1
        if ( nondet_bool()) {          // nested acquisition by the owner: lock(), try_lock() or try_lock( count ) (solver's choice)
            unsigned how = (unsigned) nondet_range( 0, 2 );
            if ( how == 0 ) do_lock();
            else if ( how == 1 ) { bool ok = do_try_lock(); VASSERT( ok, "nested try_lock() by the owner succeeds" ); }
            else { bool ok = do_try_lock_n(); VASSERT( ok, "nested try_lock( count ) by the owner succeeds" ); }
            VASSERT( occ == 0, "nested lock() by the owner: nobody else is inside" );
            do_unlock();               // inner unlock must NOT release the lock
            marker.fetch_add( 1, atomics::memory_order_relaxed );
        }
#endif
        critical();
        do_unlock();
    }
}

HFN void h_setup() { static lock_t the_lock; L = &the_lock; }
HFN void h_thread1() { worker(); }
HFN void h_thread2() { worker(); }
#if VERIF_T >= 3
HFN void h_thread3() { worker(); }
#endif
HFN void h_check()
{
    __verif_observe( (uint64_t) shared_counter );
    VASSERT( occ == 0, "critical section empty at the end" );
    VASSERT( shared_counter == entered, "no lost update inside the critical section" );
#if !USE_TRYLOCK
    VASSERT( entered == VERIF_T * NOPS, "every lock() eventually entered" );
#endif
    VASSERT( !L->is_locked(), "lock released after the last unlock" );
}
