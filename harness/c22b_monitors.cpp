// C22 (second harness): pool_monitor, injecting_monitor and lock_array provide mutual exclusion per node / per cell;
// pool_monitor returns a node's lock to the pool only when nobody holds or awaits it and never attaches one pool lock to
// two nodes at once.  MON_KIND: 0 = pool_monitor, 1 = injecting_monitor, 2 = lock_array<spin_lock, pow2_select_policy>,
// 3 = lock_array<spin_lock, mod_select_policy> (capacity 3)
// CORO harness: T threads x NOPS critical sections each on NNODES nodes / cells; the node (or hint) of every step is
// chosen by the solver.  The pool handed to pool_monitor is harness code (ghost bookkeeping, runs uninterrupted); its
// lock objects are the real cds::sync::spin_lock, so waiting inside lock() is interleaved like everything else.
#include "verif.h"
#include <cassert>
#include <cds/sync/spinlock.h>
#include <cds/sync/pool_monitor.h>
#include <cds/sync/injecting_monitor.h>
#include <cds/sync/lock_array.h>

#ifndef MON_KIND
#define MON_KIND 0
#endif
#ifndef NOPS
#define NOPS 1
#endif
#ifndef NNODES
#define NNODES 2
#endif
#ifndef VERIF_T
#define VERIF_T 2
#endif
#ifndef POOLSZ
#define POOLSZ 2
#endif

static int occ[4];                         // occupancy of the critical section per node / cell
static int entered, shared_counter[4];
static atomics::atomic<int> marker;
static bool pool_bad, excl_bad, attach_bad;
static uint8_t choice[VERIF_T][NOPS];

typedef cds::sync::spin_lock< cds::backoff::empty > spin_t;

#if MON_KIND == 0
// ---- ghost pool: POOLSZ real spin locks; a lock that sits in the pool must be neither held nor waited for
struct pool_lock {
    spin_t  lk;
    bool    in_pool;
    int     users;                         // threads between entering lock() and leaving unlock()
    void lock()   { if ( in_pool ) pool_bad = true; ++users; lk.lock(); if ( in_pool ) pool_bad = true; }
    void unlock() { if ( in_pool ) pool_bad = true; lk.unlock(); --users; }
};
struct ghost_pool {
    typedef pool_lock value_type;
    pool_lock slots[POOLSZ];
    ghost_pool( size_t ) { for ( int i = 0; i < POOLSZ; ++i ) { slots[i].in_pool = true; slots[i].users = 0; } }
    pool_lock * allocate( size_t )
    {
        pool_lock * r = nullptr;
        for ( int i = 0; i < POOLSZ; ++i ) if ( !r && slots[i].in_pool ) r = &slots[i];
        VASSUME( r != nullptr );           // more simultaneously locked nodes than pool slots: outside the harness
        r->in_pool = false;
        return r;
    }
    void deallocate( pool_lock * p, size_t )
    {
        if ( p->in_pool || p->users != 0 || p->lk.is_locked()) pool_bad = true;     // returned while held or awaited, or twice
        p->in_pool = true;
    }
};
typedef cds::sync::pool_monitor< ghost_pool, cds::backoff::empty > monitor_t;
#elif MON_KIND == 1
typedef cds::sync::injecting_monitor< spin_t > monitor_t;
#endif

#if MON_KIND <= 1
struct node_t { monitor_t::node_injection m_SyncMonitorInjection; int payload; };
static monitor_t * M;
static node_t * nodes[NNODES];
static __attribute__((noinline)) void do_lock( unsigned n ) { M->lock( *nodes[n] ); }
static __attribute__((noinline)) void do_unlock( unsigned n ) { M->unlock( *nodes[n] ); }
static unsigned cell_of( unsigned n ) { return n; }
#else
#if MON_KIND == 2
typedef cds::sync::lock_array< spin_t, cds::sync::pow2_select_policy > array_t;
#define ARRCAP 2
#else
typedef cds::sync::lock_array< spin_t, cds::sync::mod_select_policy > array_t;
#define ARRCAP 3
#endif
static array_t * A;
static size_t hints[VERIF_T][NOPS];
static size_t locked_cell[VERIF_T + 1];
static __attribute__((noinline)) size_t do_lock_hint( size_t h ) { return A->lock( h ); }
static __attribute__((noinline)) void do_unlock_cell( size_t c ) { A->unlock( c ); }
#endif

static void critical( unsigned c )
{
    ++occ[c]; ++entered;
    if ( occ[c] != 1 ) excl_bad = true;
    int t = shared_counter[c];
    marker.fetch_add( 1, atomics::memory_order_relaxed );           // other threads may run here
    if ( occ[c] != 1 ) excl_bad = true;
    shared_counter[c] = t + 1;
    --occ[c];
}

static void worker( unsigned t )
{
    for ( unsigned s = 0; s < NOPS; ++s ) {
#if MON_KIND <= 1
        unsigned n = choice[t - 1][s];
        do_lock( n );
#if MON_KIND == 0
        // the lock attached to node n is attached to no other node
        for ( unsigned j = 0; j < NNODES; ++j )
            if ( j != n && nodes[j]->m_SyncMonitorInjection.m_pLock != nullptr && nodes[j]->m_SyncMonitorInjection.m_pLock == nodes[n]->m_SyncMonitorInjection.m_pLock ) attach_bad = true;
        if ( nodes[n]->m_SyncMonitorInjection.m_pLock == nullptr ) attach_bad = true;
#endif
        critical( n );
        do_unlock( n );
#else
        size_t h = hints[t - 1][s];
        size_t c = do_lock_hint( h );
        if ( c >= ARRCAP || c != h % ARRCAP ) attach_bad = true;      // cell selection: hint mod capacity (pow2 policy: hint & (cap-1))
        critical( (unsigned) c );
        do_unlock_cell( c );
#endif
    }
}

HFN void h_setup()
{
#if MON_KIND <= 1
    static monitor_t mon;
    M = &mon;
    for ( unsigned i = 0; i < NNODES; ++i ) { nodes[i] = new node_t; nodes[i]->payload = (int) i; }
    for ( unsigned t = 0; t < VERIF_T; ++t ) for ( unsigned s = 0; s < NOPS; ++s ) choice[t][s] = (uint8_t) nondet_range( 0, NNODES - 1 );
#else
#if MON_KIND == 2
    static array_t arr( ARRCAP, cds::sync::pow2_select_policy( ARRCAP ));
#else
    static array_t arr( ARRCAP );
#endif
    A = &arr;
    for ( unsigned t = 0; t < VERIF_T; ++t ) for ( unsigned s = 0; s < NOPS; ++s ) hints[t][s] = nondet_u64();
#endif
}
HFN void h_thread1() { worker( 1 ); }
HFN void h_thread2() { worker( 2 ); }
#if VERIF_T >= 3
HFN void h_thread3() { worker( 3 ); }
#endif
HFN void h_check()
{
    __verif_observe( (uint64_t) entered );
    VASSERT( !excl_bad, "at most one thread inside a critical section guarded by the same node / cell" );
    VASSERT( !attach_bad, "pool_monitor: a locked node has a pool lock that no other node uses / lock_array: lock(hint) locks the cell the policy selects" );
    VASSERT( !pool_bad, "pool_monitor: a lock is returned to the pool only when no thread holds or awaits it, and is not used while in the pool" );
    VASSERT( entered == VERIF_T * NOPS, "every lock() eventually entered" );
    int total = 0;
    for ( int i = 0; i < 4; ++i ) { VASSERT( occ[i] == 0, "critical sections empty at the end" ); total += shared_counter[i]; }
    VASSERT( total == entered, "no lost update inside the critical sections" );
#if MON_KIND == 0
    for ( unsigned i = 0; i < NNODES; ++i ) VASSERT( nodes[i]->m_SyncMonitorInjection.check_free(), "pool_monitor: at quiescence every node has given its lock back" );
#endif
}
