// C24: vyukov_queue_pool / lazy_vyukov_queue_pool / bounded_vyukov_queue_pool / pool_allocator never hand one object to two
// holders; deallocated objects become available again.
// CORO harness: pool capacity CAP (static buffer); T threads x NOPS solver-chosen steps (allocate, or deallocate of an
// object the thread holds); a thread holds at most MAXHOLD objects, so the unbounded pools are driven past their capacity
// (heap fallback) while the bounded pool never is (its allocate() throws when exhausted - reaching that is reported).
// Ghost: the set of currently allocated objects.  Oracles: allocate() never returns an object that is in the set; at
// quiescence every pooled object that is not held can be allocated again (distinct, from the pool).
#include "verif.h"
#include <cassert>
#define private public
#define protected public
#include <cds/memory/vyukov_queue_pool.h>
#undef protected
#undef private
#include <cds/memory/pool_allocator.h>

#ifndef POOL_KIND
#define POOL_KIND 0
#endif
#ifndef CAP
#define CAP 2
#endif
#ifndef NOPS
#define NOPS 2
#endif
#ifndef MAXHOLD
#define MAXHOLD 2
#endif
#ifndef VERIF_T
#define VERIF_T 2
#endif

// the pooled type has a constructor and a destructor that really write into the object; the destructor contains one atomic
// operation (= one context-switch point), as the destructor of any type that owns shared state does
static atomics::atomic<int> dtor_marker;
struct item {
    int v;
    item() : v( 0 ) {}
    ~item() { dtor_marker.fetch_add( 1, atomics::memory_order_relaxed ); v = -1; }
};
struct pool_traits : public cds::memory::vyukov_queue_pool_traits {
    typedef cds::opt::v::uninitialized_static_buffer< item, CAP > buffer;
    typedef cds::backoff::empty back_off;
};
#if POOL_KIND == 0 || POOL_KIND == 3
typedef cds::memory::vyukov_queue_pool< item, pool_traits > pool_t;
#elif POOL_KIND == 1
typedef cds::memory::lazy_vyukov_queue_pool< item, pool_traits > pool_t;
#else
typedef cds::memory::bounded_vyukov_queue_pool< item, pool_traits > pool_t;
#endif
static pool_t * P;
#if POOL_KIND == 3
struct pool_accessor { typedef pool_t::value_type value_type; pool_t& operator()() const { return *P; } };
typedef cds::memory::pool_allocator< item, pool_accessor > alloc_t;
static __attribute__((noinline)) item * do_alloc() { return alloc_t().allocate( 1 ); }
static __attribute__((noinline)) void do_free( item * p ) { alloc_t().deallocate( p, 1 ); }
#else
static __attribute__((noinline)) item * do_alloc() { return P->allocate( 1 ); }
static __attribute__((noinline)) void do_free( item * p ) { P->deallocate( p, 1 ); }
#endif

#define MAXLIVE ( VERIF_T * MAXHOLD )
static item * live[MAXLIVE]; static uint8_t live_owner[MAXLIVE];      // ghost: allocated objects and their holders
static bool twice, null_ret;
static uint8_t script[VERIF_T][NOPS];

static void worker( unsigned t )
{
    for ( unsigned s = 0; s < NOPS; ++s ) {
        unsigned mine = 0; int slot = -1, free_slot = -1;
        for ( int i = 0; i < MAXLIVE; ++i ) { if ( live[i] && live_owner[i] == t ) { ++mine; slot = i; } }
        if ( script[t - 1][s] == 0 ) {
            if ( mine >= MAXHOLD ) continue;
            item * p = do_alloc();
            if ( !p ) { null_ret = true; continue; }
            for ( int i = 0; i < MAXLIVE; ++i ) { if ( live[i] == p ) twice = true; if ( !live[i] && free_slot < 0 ) free_slot = i; }
            if ( free_slot >= 0 ) { live[free_slot] = p; live_owner[free_slot] = (uint8_t) t; }
            p->v = (int) t;                      // the holder uses its object
        }
        else if ( slot >= 0 ) {
            item * p = live[slot];
            if ( p->v != (int) t ) twice = true; // somebody else wrote into an object this thread holds
            live[slot] = nullptr;                // ownership is given up before the call
            do_free( p );
        }
    }
}

HFN void h_setup()
{
    static pool_t the_pool( CAP );
    P = &the_pool;
    for ( unsigned t = 0; t < VERIF_T; ++t ) for ( unsigned s = 0; s < NOPS; ++s ) script[t][s] = nondet_bool() ? 1 : 0;
}
// pre-state: every thread already holds a solver-chosen number of objects (allocated one after the other, no interleaving)
HFN void h_init()
{
    unsigned t = __verif_tid_get();
    unsigned pre = (unsigned) nondet_range( 0, MAXHOLD );
    __verif_observe( pre );
    for ( unsigned k = 0; k < MAXHOLD; ++k ) if ( k < pre ) {
        item * p = do_alloc();
        int free_slot = -1;
        for ( int i = 0; i < MAXLIVE; ++i ) { if ( live[i] == p ) twice = true; if ( !live[i] && free_slot < 0 ) free_slot = i; }
        if ( p && free_slot >= 0 ) { live[free_slot] = p; live_owner[free_slot] = (uint8_t) t; p->v = (int) t; }
    }
}
HFN void h_thread1() { worker( 1 ); }
HFN void h_thread2() { worker( 2 ); }
#if VERIF_T >= 3
HFN void h_thread3() { worker( 3 ); }
#endif
HFN void h_check()
{
    VASSERT( !null_ret, "allocate() returns an object" );
    for ( int i = 0; i < MAXLIVE; ++i ) if ( live[i] && live[i]->v != (int) live_owner[i] ) twice = true;   // somebody else (e.g. a late destructor) wrote into a held object
    VASSERT( !twice, "allocate() never returns an object that is currently allocated to another holder" );
#if POOL_KIND != 1
    // pooled objects (the preallocated array) that nobody holds must all be available again
    unsigned held_from_pool = 0;
    for ( int i = 0; i < MAXLIVE; ++i ) if ( live[i] && P->from_pool( live[i] )) ++held_from_pool;
    __verif_observe( held_from_pool );
    item * got[CAP]; unsigned n = 0;
    for ( unsigned k = 0; k < CAP; ++k ) if ( k < CAP - held_from_pool ) {
        item * p = do_alloc();
        VASSERT( p != nullptr && P->from_pool( p ), "quiescence: every deallocated pool object is available again" );
        for ( unsigned j = 0; j < n; ++j ) VASSERT( got[j] != p, "quiescence: the pool hands out distinct objects" );
        for ( int i = 0; i < MAXLIVE; ++i ) VASSERT( live[i] != p, "quiescence: the pool does not hand out an object that is still held" );
        got[n++] = p;
    }
    for ( unsigned j = 0; j < n; ++j ) do_free( got[j] );
#else
    // lazy pool: everything that was deallocated (up to the queue capacity) is handed out again before the heap is used
    item * a = do_alloc(); VASSERT( a != nullptr, "lazy pool allocates" );
    for ( int i = 0; i < MAXLIVE; ++i ) VASSERT( live[i] != a, "quiescence: the pool does not hand out an object that is still held" );
    do_free( a );
#endif
    for ( int i = 0; i < MAXLIVE; ++i ) if ( live[i] ) { item * p = live[i]; live[i] = nullptr; do_free( p ); }
}
