// C25: bit-manipulation helpers are correct for every input.
// One translation unit, several queries selected with -DQ_<name>; every input is a solver variable (full width).
#include "verif.h"
#include <cassert>
#include <cds/algo/bit_reversal.h>
#include <cds/algo/bitop.h>
#include <cds/algo/int_algo.h>
#include <cds/algo/split_bitstring.h>

// second copy of the portable implementations (cds/details/bitop_generic.h) next to the amd64 asm ones
#undef CDSLIB_DETAILS_BITOP_GENERIC_H
#undef cds_bitop_msb32_DEFINED
#undef cds_bitop_msb32nz_DEFINED
#undef cds_bitop_lsb32_DEFINED
#undef cds_bitop_lsb32nz_DEFINED
#undef cds_bitop_msb64_DEFINED
#undef cds_bitop_msb64nz_DEFINED
#undef cds_bitop_lsb64_DEFINED
#undef cds_bitop_lsb64nz_DEFINED
#define platform platform_generic
#include <cds/details/bitop_generic.h>
#undef platform

namespace br = cds::algo::bit_reversal;
namespace bo = cds::bitop;
namespace gen = cds::bitop::platform_generic;

// ---------- references: bit-by-bit definitions
static uint64_t ref_rev( uint64_t x, int w ) { uint64_t r = 0; for ( int i = 0; i < w; i++ ) { r = ( r << 1 ) | ( x & 1 ); x >>= 1; } return r; }
static int ref_msb( uint64_t x ) { int r = 0; for ( int i = 0; i < 64; i++ ) if ( ( x >> i ) & 1 ) r = i + 1; return r; }        // 1-based, 0 for 0
static int ref_lsb( uint64_t x ) { for ( int i = 0; i < 64; i++ ) if ( ( x >> i ) & 1 ) return i + 1; return 0; }
static int ref_pop( uint64_t x ) { int r = 0; for ( int i = 0; i < 64; i++ ) r += (int)( ( x >> i ) & 1 ); return r; }

#ifdef Q_BITREV
HFN void h_main()
{
    uint64_t x = nondet_u64();
    uint32_t y = nondet_u32();
    uint8_t  b = nondet_u8();
    uint64_t r64 = ref_rev( x, 64 );
    uint32_t r32 = (uint32_t) ref_rev( y, 32 );
    __verif_observe( br::swar()( x )); __verif_observe( br::lookup()( y )); __verif_observe( br::muldiv()( x ));
    VASSERT( br::swar()( x ) == r64, "swar 64 == reference bit reversal" );
    VASSERT( br::swar()( y ) == r32, "swar 32 == reference bit reversal" );
    VASSERT( br::lookup()( x ) == r64, "lookup 64 == reference bit reversal" );
    VASSERT( br::lookup()( y ) == r32, "lookup 32 == reference bit reversal" );
    VASSERT( br::muldiv()( x ) == r64, "muldiv 64 == reference bit reversal" );
    VASSERT( br::muldiv()( y ) == r32, "muldiv 32 == reference bit reversal" );
    VASSERT( br::muldiv::muldiv32( x ) == r64, "muldiv32(u64) == reference bit reversal" );
    VASSERT( br::muldiv::muldiv32( y ) == r32, "muldiv32(u32) == reference bit reversal" );
    VASSERT( br::muldiv::muldiv64( x ) == r64, "muldiv64(u64) == reference bit reversal" );
    VASSERT( br::muldiv::muldiv64( y ) == r32, "muldiv64(u32) == reference bit reversal" );
    VASSERT( br::muldiv::muldiv32_byte( b ) == (uint8_t) ref_rev( b, 8 ), "muldiv32_byte == reference" );
    VASSERT( br::muldiv::muldiv64_byte( b ) == (uint8_t) ref_rev( b, 8 ), "muldiv64_byte == reference" );
    VASSERT( br::swar()( br::swar()( x )) == x && br::swar()( br::swar()( y )) == y, "swar is an involution" );
    VASSERT( br::lookup()( br::lookup()( x )) == x && br::lookup()( br::lookup()( y )) == y, "lookup is an involution" );
    VASSERT( br::muldiv()( br::muldiv()( x )) == x && br::muldiv()( br::muldiv()( y )) == y, "muldiv is an involution" );
}
#endif

#ifdef Q_BITOP
HFN void h_main()
{
    uint64_t x = nondet_u64();
    uint32_t y = nondet_u32();
    __verif_observe( (uint64_t) bo::MSB( x )); __verif_observe( (uint64_t) bo::LSB( y )); __verif_observe( (uint64_t) bo::SBC( x ));
    // amd64 asm path (what the library uses on this platform)
    VASSERT( bo::MSB( x ) == ref_msb( x ), "MSB 64" );
    VASSERT( bo::MSB( y ) == ref_msb( y ), "MSB 32" );
    VASSERT( bo::LSB( x ) == ref_lsb( x ), "LSB 64" );
    VASSERT( bo::LSB( y ) == ref_lsb( y ), "LSB 32" );
    if ( x ) { VASSERT( bo::MSBnz( x ) == ref_msb( x ) - 1, "MSBnz 64" ); VASSERT( bo::LSBnz( x ) == ref_lsb( x ) - 1, "LSBnz 64" ); }
    if ( y ) { VASSERT( bo::MSBnz( y ) == ref_msb( y ) - 1, "MSBnz 32" ); VASSERT( bo::LSBnz( y ) == ref_lsb( y ) - 1, "LSBnz 32" ); }
    VASSERT( bo::SBC( x ) == ref_pop( x ) && bo::ZBC( x ) == 64 - ref_pop( x ), "SBC/ZBC 64" );
    VASSERT( bo::SBC( y ) == ref_pop( y ) && bo::ZBC( y ) == 32 - ref_pop( y ), "SBC/ZBC 32" );
    VASSERT( bo::RBO( x ) == ref_rev( x, 64 ), "RBO 64" );
    VASSERT( bo::RBO( y ) == (uint32_t) ref_rev( y, 32 ), "RBO 32" );
    {
        unsigned n64 = (unsigned) nondet_range( 0, 63 ), n32 = (unsigned) nondet_range( 0, 31 );
        uint64_t x2 = x; uint32_t y2 = y;
        bool o64 = bo::complement( x2, (int) n64 ), o32 = bo::complement( y2, (int) n32 );
        VASSERT( o64 == ( (( x >> n64 ) & 1 ) != 0 ) && x2 == ( x ^ ( uint64_t( 1 ) << n64 )), "complement 64 flips the bit and returns its old value" );
        VASSERT( o32 == ( (( y >> n32 ) & 1 ) != 0 ) && y2 == ( y ^ ( uint32_t( 1 ) << n32 )), "complement 32 flips the bit and returns its old value" );
    }
    // portable path of cds/details/bitop_generic.h
    VASSERT( gen::msb64( x ) == ref_msb( x ) && gen::msb32( y ) == ref_msb( y ), "generic msb" );
    VASSERT( gen::lsb64( x ) == ref_lsb( x ) && gen::lsb32( y ) == ref_lsb( y ), "generic lsb" );
    if ( x ) VASSERT( gen::msb64nz( x ) == ref_msb( x ) - 1 && gen::lsb64nz( x ) == ref_lsb( x ) - 1, "generic msb64nz/lsb64nz" );
    if ( y ) VASSERT( gen::msb32nz( y ) == ref_msb( y ) - 1 && gen::lsb32nz( y ) == ref_lsb( y ) - 1, "generic msb32nz/lsb32nz" );
    VASSERT( gen::isPow2_64( x ) == ( ref_pop( x ) == 1 ) && gen::isPow2_32( y ) == ( ref_pop( y ) == 1 ), "generic isPow2" );
}
#endif

#ifdef Q_INTALGO
HFN void h_main()
{
    size_t n = nondet_u64();
    int m = ref_msb( n );          // 1-based
    size_t fl = cds::beans::log2floor( n );
    size_t ce = cds::beans::log2ceil( n );
    __verif_observe( fl ); __verif_observe( ce );
    if ( n == 0 ) {
        VASSERT( fl == 0 && ce == 0, "log2floor(0) == log2ceil(0) == 0 (documented)" );
        VASSERT( cds::beans::floor2( n ) == 1 && cds::beans::ceil2( n ) == 1, "floor2(0) == ceil2(0) == 1 (documented)" );
    }
    else {
        VASSERT( fl == (size_t)( m - 1 ), "log2floor(n) == index of the highest set bit" );
        VASSERT( ( size_t( 1 ) << fl ) <= n && ( fl == 63 || n < ( size_t( 1 ) << ( fl + 1 ))), "2^log2floor <= n < 2^(log2floor+1)" );
        bool pow2 = ref_pop( n ) == 1;
        VASSERT( ce == ( pow2 ? fl : fl + 1 ), "log2ceil(n) == ceil(log2 n)" );
        VASSERT( cds::beans::floor2( n ) == ( size_t( 1 ) << ( m - 1 )), "floor2(n) == largest power of two <= n" );
        if ( n <= ( size_t( 1 ) << 63 )) {       // ceil2 is not representable above 2^63
            size_t c2 = cds::beans::ceil2( n );
            VASSERT( ref_pop( c2 ) == 1 && c2 >= n && ( c2 / 2 < n ), "ceil2(n) == smallest power of two >= n" );
        }
        VASSERT( cds::beans::log2( n ) == ( pow2 ? (size_t)( m - 1 ) : 0 ), "log2(n) exact for powers of two, 0 otherwise" );
    }
    VASSERT( cds::beans::is_power2( n ) == ( ref_pop( n ) == 1 ), "is_power2" );
}
#endif

// ---------- splitters
#ifndef SRC_BYTES
#define SRC_BYTES 8
#endif
#ifndef NCUTS
#define NCUTS 3
#endif
struct bitstr { uint8_t b[SRC_BYTES]; };
static uint64_t ref_bits( bitstr const& s, unsigned pos, unsigned w )     // bits [pos,pos+w), little-endian bit numbering, w <= 64
{
    unsigned __int128 all = 0;
    for ( unsigned i = 0; i < SRC_BYTES; ++i ) all |= (unsigned __int128) s.b[i] << ( 8 * i );
    if ( w == 0 || pos >= SRC_BYTES * 8 ) return 0;
    unsigned __int128 v = all >> pos;
    return w >= 64 ? (uint64_t) v : (uint64_t) v & (( uint64_t( 1 ) << w ) - 1 );
}

#if defined(Q_SPLIT_BITSTRING) || defined(Q_BYTE_SPLITTER)
#ifndef UINT_T
#define UINT_T unsigned
#endif
#ifdef Q_BYTE_SPLITTER
typedef cds::algo::byte_splitter< bitstr, SRC_BYTES, UINT_T > splitter_t;
#define WIDTH_OK( w ) (( w ) % 8 == 0 )
#else
typedef cds::algo::split_bitstring< bitstr, SRC_BYTES, UINT_T > splitter_t;
#define WIDTH_OK( w ) true
#endif
HFN void h_main()
{
    bitstr src;
    for ( unsigned i = 0; i < SRC_BYTES; ++i ) src.b[i] = nondet_u8();
    const unsigned total = SRC_BYTES * 8, maxw = sizeof( UINT_T ) * 8;
    bool use_offset_ctor = nondet_bool();
    unsigned pos = 0;
    if ( use_offset_ctor ) {
        pos = (unsigned) nondet_range( 0, total - 1 );
        VASSUME( WIDTH_OK( pos ));
    }
    splitter_t sp = use_offset_ctor ? splitter_t( src, pos ) : splitter_t( src );
    VASSERT( sp.source() == &src, "source() returns the bit string" );
    for ( unsigned k = 0; k < NCUTS; ++k ) {
        VASSERT( sp.bit_offset() == pos && sp.rest_count() == total - pos, "bit_offset/rest_count track the position" );
        VASSERT( sp.eos() == ( pos == total ) && bool( sp ) == ( pos != total ), "eos exactly when all bits are consumed" );
        unsigned w = (unsigned) nondet_range( 1, maxw );
        VASSUME( WIDTH_OK( w ));
        bool safe = nondet_bool();
        if ( safe ) {
            unsigned eff = w <= total - pos ? w : total - pos;
            uint64_t got = sp.safe_cut( w );
            __verif_observe( got );
            VASSERT( got == ref_bits( src, pos, eff ), "safe_cut returns exactly the remaining requested bits (0 at end)" );
            pos += eff;
        }
        else {
            VASSUME( w <= total - pos );      // documented precondition of cut()
            uint64_t got = sp.cut( w );
            __verif_observe( got );
            VASSERT( got == ref_bits( src, pos, w ), "cut returns bits [pos,pos+w) of the source" );
            pos += w;
        }
    }
    VASSERT( sp.bit_offset() == pos && sp.eos() == ( pos == total ), "final position" );
    sp.reset();
    VASSERT( sp.bit_offset() == 0 && !sp.eos(), "reset rewinds" );
}
#endif

#ifdef Q_NUMBER_SPLITTER
#ifndef INT_T
#define INT_T size_t
#endif
typedef INT_T int_t;
typedef cds::algo::number_splitter< int_t > nsplitter_t;
HFN void h_main()
{
    const unsigned total = sizeof( int_t ) * 8;
    uint64_t raw = nondet_u64();
    int_t n = (int_t) raw;
    bitstr src;     // same bits as a byte string, for the reference
    for ( unsigned i = 0; i < SRC_BYTES; ++i ) src.b[i] = i < sizeof( int_t ) ? (uint8_t)( raw >> ( 8 * i )) : 0;
    bool use_offset_ctor = nondet_bool();
    unsigned pos = use_offset_ctor ? (unsigned) nondet_range( 0, total - 1 ) : 0;
    nsplitter_t sp = use_offset_ctor ? nsplitter_t( n, pos ) : nsplitter_t( n );
    VASSERT( sp.source() == n, "source() returns the number" );
    uint64_t mask_all = total == 64 ? ~uint64_t( 0 ) : (( uint64_t( 1 ) << total ) - 1 );
    for ( unsigned k = 0; k < NCUTS; ++k ) {
        VASSERT( sp.bit_offset() == pos && sp.rest_count() == total - pos, "bit_offset/rest_count track the position" );
        VASSERT( sp.eos() == ( pos == total ), "eos exactly when all bits are consumed" );
        unsigned w = (unsigned) nondet_range( 1, total - 1 );      // is_correct(): count < bits
        VASSERT( nsplitter_t::is_correct( w ), "width accepted by is_correct" );
        bool safe = nondet_bool();
        if ( safe ) {
            unsigned eff = w <= total - pos ? w : total - pos;
            uint64_t got = (uint64_t) sp.safe_cut( w ) & mask_all;
            __verif_observe( got );
            VASSERT( got == ref_bits( src, pos, eff ), "safe_cut returns exactly the remaining requested bits (0 at end)" );
            pos += eff;
        }
        else {
            VASSUME( w <= total - pos );
            uint64_t got = (uint64_t) sp.cut( w ) & mask_all;
            __verif_observe( got );
            VASSERT( got == ref_bits( src, pos, w ), "cut returns bits [pos,pos+w) of the number" );
            pos += w;
        }
    }
    VASSERT( sp.bit_offset() == pos && sp.eos() == ( pos == total ), "final position" );
}
#endif
