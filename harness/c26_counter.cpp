// C26: the bit-reversed slot counter of MSPriorityQueue (cds/details/bit_reverse_counter.h).
// Inductive encoding: the pre-state is an ARBITRARY counter state satisfying the representation invariant INV
// (all counts 0 .. 2^63-1 at once); one real inc()/dec() is executed; INV and the functional result are asserted.
// INV holds in the default-constructed state (Q_INIT) and is preserved (Q_STEP), so it covers histories of any length.
#include "verif.h"
#include <cassert>
#include <cds/algo/bitop.h>
#define private public
#include <cds/details/bit_reverse_counter.h>
#undef private

typedef cds::bitop::bit_reverse_counter<size_t> counter_t;

static int ref_msb_idx( uint64_t x ) { int r = -1; for ( int i = 0; i < 64; i++ ) if ( ( x >> i ) & 1 ) r = i; return r; }
static uint64_t ref_rev( uint64_t x, int w ) { uint64_t r = 0; for ( int i = 0; i < 64; i++ ) { if ( i < w ) { r = ( r << 1 ) | ( x & 1 ); x >>= 1; } } return r; }
// slot number handed out for the c-th item (c >= 1): top bit kept, the bits below it reversed
static uint64_t ref_slot( uint64_t c ) { if ( c == 0 ) return 0; int hb = ref_msb_idx( c ); uint64_t top = uint64_t( 1 ) << hb; return top | ref_rev( c - top, hb ); }
static bool inv( counter_t const& k ) { return k.m_nHighBit == ref_msb_idx( k.m_nCounter ) && k.m_nReversed == ref_slot( k.m_nCounter ); }

static void arbitrary_state( counter_t& k, uint64_t lo, uint64_t hi )
{
    k.m_nCounter = nondet_range( lo, hi );
    k.m_nReversed = nondet_u64();
    k.m_nHighBit = (int)(int64_t) nondet_range( 0, 64 ) - 1;
    VASSUME( inv( k ));
}

#ifdef Q_INIT
HFN void h_main()
{
    counter_t k;
    VASSERT( inv( k ) && k.value() == 0, "default-constructed counter satisfies the representation invariant" );
    // concrete prefix: exhaustive for small counts (first NSMALL increments, then all decrements)
    uint64_t seen = 0;
    for ( unsigned n = 1; n <= NSMALL; ++n ) {
        size_t s = k.inc();
        __verif_observe( s );
        VASSERT( s == ref_slot( n ) && inv( k ), "small counts: inc() returns the reference slot" );
        VASSERT( s >= 1 && s < 64 && !( seen & ( uint64_t( 1 ) << s )), "small counts: slot is fresh" );
        seen |= uint64_t( 1 ) << s;
        if ( (( n + 1 ) & n ) == 0 )
            VASSERT( seen == (( uint64_t( 1 ) << ( n + 1 )) - 2 ), "small counts: at every full level (n = 2^k-1) the slots are exactly 1..n" );
    }
    for ( unsigned n = NSMALL; n >= 1; --n ) {
        size_t s = k.dec();
        VASSERT( s == ref_slot( n ) && inv( k ) && k.value() == n - 1, "small counts: dec() returns the most recent slot" );
    }
}
#endif

#ifdef Q_STEP
HFN void h_main()
{
    counter_t k;
    arbitrary_state( k, 0, ( uint64_t( 1 ) << 63 ) - 2 );
    counter_t const before = k;
    uint64_t c = k.m_nCounter;
    size_t s = k.inc();
    __verif_observe( s ); __verif_observe( k.m_nReversed ); __verif_observe( (uint64_t) k.m_nHighBit );
    VASSERT( k.m_nCounter == c + 1 && inv( k ), "inc() preserves the representation invariant" );
    VASSERT( s == ref_slot( c + 1 ), "inc() returns the reference slot of the new count" );
    int hb = ref_msb_idx( c + 1 );
    VASSERT( s >= ( uint64_t( 1 ) << hb ) && ( s >> hb ) == 1, "slot of item n lies in the heap level of n: 2^floor(log2 n) <= slot < 2^(floor(log2 n)+1)" );
    size_t d = k.dec();
    VASSERT( d == s, "dec() returns the slot most recently produced" );
    VASSERT( k.m_nCounter == before.m_nCounter && k.m_nReversed == before.m_nReversed && k.m_nHighBit == before.m_nHighBit,
             "dec() leaves the counter exactly as it was before that increment" );
}
#endif

#ifdef Q_DEC
HFN void h_main()
{
    counter_t k;
    arbitrary_state( k, 1, ( uint64_t( 1 ) << 63 ) - 1 );
    counter_t const before = k;
    size_t d = k.dec();
    __verif_observe( d ); __verif_observe( k.m_nReversed );
    VASSERT( d == ref_slot( before.m_nCounter ), "dec() returns the slot of the last item" );
    VASSERT( k.m_nCounter == before.m_nCounter - 1 && inv( k ), "dec() preserves the representation invariant" );
    size_t s = k.inc();
    VASSERT( s == d && k.m_nCounter == before.m_nCounter && k.m_nReversed == before.m_nReversed && k.m_nHighBit == before.m_nHighBit,
             "inc() after dec() restores the state" );
}
#endif

#ifdef Q_DISTINCT
// two different item numbers never get the same slot (with the level containment of Q_STEP: at n = 2^k-1 the slots are exactly 1..n)
HFN void h_main()
{
    counter_t a, b;
    arbitrary_state( a, 0, ( uint64_t( 1 ) << 63 ) - 2 );
    arbitrary_state( b, 0, ( uint64_t( 1 ) << 63 ) - 2 );
    VASSUME( a.m_nCounter != b.m_nCounter );
    size_t sa = a.inc(), sb = b.inc();
    __verif_observe( sa ); __verif_observe( sb );
    VASSERT( sa != sb, "distinct item numbers get distinct slots" );
}
#endif

#ifdef Q_PREFIX
// the literal first sentence of C26: for EVERY n the first n slots are a permutation of 1..n, i.e. (given distinctness) slot(c) <= n for all c <= n
HFN void h_main()
{
    counter_t k;
    uint64_t n = nondet_range( 1, NMAX );
    arbitrary_state( k, 0, NMAX - 1 );
    VASSUME( k.m_nCounter + 1 <= n );
    size_t s = k.inc();
    __verif_observe( s );
    VASSERT( s >= 1 && s <= n, "first n slots are a permutation of 1..n for every n (slot of item c <= n is <= n)" );
}
#endif

#ifdef Q_DYCK
// arbitrary inc/dec sequences of NOPS operations from the empty counter: dec returns the slots in LIFO order
HFN void h_main()
{
    counter_t k;
    size_t stack[NOPS + 1]; unsigned sp = 0;
    for ( unsigned i = 0; i < NOPS; ++i ) {
        bool up = nondet_bool();
        if ( sp == 0 ) up = true;
        if ( up ) { size_t s = k.inc(); __verif_observe( s ); for ( unsigned j = 0; j < NOPS; ++j ) if ( j < sp ) VASSERT( stack[j] != s, "Dyck: a slot in use is not handed out again" ); stack[sp++] = s; }
        else { size_t d = k.dec(); __verif_observe( d ); VASSERT( d == stack[sp - 1], "Dyck: dec() returns the most recently produced slot" ); --sp; }
        VASSERT( k.value() == sp && inv( k ), "Dyck: counter value == number of live slots" );
    }
}
#endif
