// C27: split-order key encoding keeps each bucket contiguous.
// Real code under the solver: split_list::regular_hash / dummy_hash (split_list_base.h) for each bit-reversal
// algorithm, SplitListSet::bucket_no and SplitListSet::parent_bucket (protected members, reached through a derived class).
// hash value, table size 2^k (k = 0..63) and the second bucket are solver variables (full 64-bit width).
#include "verif.h"
#include <cassert>
#if VARIANT == 0
#  include <cds/gc/hp.h>
#  include <cds/intrusive/michael_list_hp.h>
#  include <cds/intrusive/split_list.h>
   typedef cds::gc::HP gc_t;
#elif VARIANT == 1
#  include <cds/gc/nogc.h>
#  include <cds/intrusive/michael_list_nogc.h>
#  include <cds/intrusive/split_list_nogc.h>
   typedef cds::gc::nogc gc_t;
#else
#  include <cds/urcu/general_instant.h>
#  include <cds/intrusive/michael_list_rcu.h>
#  include <cds/intrusive/split_list_rcu.h>
   typedef cds::urcu::gc< cds::urcu::general_instant<> > gc_t;
#endif
#include <cds/algo/bit_reversal.h>
#include <new>

namespace ci = cds::intrusive;
namespace br = cds::algo::bit_reversal;

#ifndef BITREV
#define BITREV swar
#endif
typedef br::BITREV bitrev_t;

struct item : public ci::split_list::node< ci::michael_list::node< gc_t > > { int key; };
struct hash_fn { size_t operator()( item const& i ) const { return (size_t) i.key; } size_t operator()( int k ) const { return (size_t) k; } };
struct less_fn { bool operator()( item const& a, item const& b ) const { return a.key < b.key; } };
struct list_traits : public ci::michael_list::traits { typedef ci::michael_list::base_hook< cds::opt::gc< gc_t > > hook; typedef less_fn less; };
typedef ci::MichaelList< gc_t, item, list_traits > list_t;
struct set_traits : public ci::split_list::traits { typedef hash_fn hash; typedef bitrev_t bit_reversal; };
typedef ci::SplitListSet< gc_t, list_t, set_traits > set_t;

// set_access to the protected addressing functions of the real class
struct set_access : public set_t {
    static size_t parent( size_t b ) { return set_t::parent_bucket( b ); }
    size_t bucket( size_t h ) const { return this->bucket_no( h ); }
    void set_log2( size_t k ) { this->m_nBucketCountLog2.store( k, atomics::memory_order_relaxed ); }
};

static uint64_t ref_rev64( uint64_t x ) { uint64_t r = 0; for ( int i = 0; i < 64; i++ ) { r = ( r << 1 ) | ( x & 1 ); x >>= 1; } return r; }
static int ref_msb_idx( uint64_t x ) { int r = -1; for ( int i = 0; i < 64; i++ ) if ( ( x >> i ) & 1 ) r = i; return r; }

// bucket_no() only reads m_nBucketCountLog2: the object is raw storage with that one member initialised (constructing a
// real table of 2^k buckets for symbolic k is not possible); everything else of the object is never touched.
alignas( 64 ) static unsigned char raw[ sizeof( set_access ) ];

HFN void h_main()
{
    set_access * s = reinterpret_cast< set_access * >( raw );
    size_t h = nondet_u64();
    unsigned k = (unsigned) nondet_range( KLO, KHI );
    s->set_log2( k );
    size_t mask = k >= 64 ? ~size_t( 0 ) : (( size_t( 1 ) << k ) - 1 );

    size_t reg = ci::split_list::regular_hash< bitrev_t >( h );
    size_t b = s->bucket( h );
    __verif_observe( reg ); __verif_observe( b );
    VASSERT( b == ( h & mask ), "bucket_no(h) == h mod 2^k" );
    size_t dum = ci::split_list::dummy_hash< bitrev_t >( b );
    __verif_observe( dum );

    VASSERT( ( reg & 1 ) == 1 && reg == ( ref_rev64( h ) | 1 ), "regular key: bit-reversed hash with LSB set (odd)" );
    VASSERT( ( dum & 1 ) == 0 && dum == ( ref_rev64( b ) & ~uint64_t( 1 )), "bucket dummy: bit-reversed bucket number with LSB clear (even)" );
    VASSERT( dum < reg, "every regular key of bucket b sorts after b's dummy" );

    // any other bucket b2 of the same table whose dummy sorts after b's dummy sorts after every key of b
    size_t b2 = nondet_u64() & mask;
    size_t dum2 = ci::split_list::dummy_hash< bitrev_t >( b2 );
    if ( dum2 > dum )
        VASSERT( reg < dum2, "a regular key of bucket b sorts before the dummy of every bucket later in split order" );
    if ( b2 != b )
        VASSERT( dum2 != dum, "distinct buckets have distinct dummies" );

    // parent bucket
    if ( b > 0 ) {
        size_t p = set_access::parent( b );
        __verif_observe( p );
        VASSERT( p == ( b & ~( uint64_t( 1 ) << ref_msb_idx( b ))), "parent_bucket(b) == b with its most significant set bit cleared" );
        VASSERT( p < b, "parent bucket exists in every table that contains b" );
        VASSERT( ci::split_list::dummy_hash< bitrev_t >( p ) < dum, "a bucket's parent dummy sorts before the bucket's dummy" );
    }
}
