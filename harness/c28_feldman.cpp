// C28: Feldman hash addressing distinguishes every pair of distinct hashes.
// Real code under the solver: feldman_hashset::details::metrics::make (normalisation of head/array bit widths) and
// the splitter that multilevel_array selects for the hash type (cds::algo::select_splitter), driven exactly like
// multilevel_array::traverse_data::reset / traverse: cut(head_node_size_log) once, then cut(array_node_size_log) per level.
// head_bits, array_bits and both hashes are solver variables.
#include "verif.h"
#include <cassert>
#include <cds/intrusive/details/feldman_hashset_base.h>

#ifndef HASH_T
#define HASH_T uint16_t
#endif
typedef HASH_T hash_t;
static constexpr size_t HB = sizeof( hash_t ) * 8;
typedef cds::intrusive::feldman_hashset::details::metrics metrics_t;
typedef cds::algo::select_splitter< hash_t, sizeof( hash_t ) >::type splitter_t;   // what multilevel_array uses when traits::hash_splitter is none

#ifdef Q_METRICS
HFN void h_main()
{
    size_t head = nondet_range( 0, HEAD_MAX ), arr = nondet_range( 0, 16 );
    size_t hs = (size_t) 1 << nondet_range( 0, 3 );        // 1, 2, 4, 8 bytes
    size_t bits = hs * 8;
    VASSUME( head <= bits );                               // property quantifier: head_bits 0..hash_bits
    VASSUME( bits < 64 || head <= HEAD_MAX64 );            // 8-byte hashes: a head array of more than 2^HEAD_MAX64 slots cannot exist (outside the claim)
    metrics_t m = metrics_t::make( head, arr, hs );
    __verif_observe( m.head_node_size_log ); __verif_observe( m.array_node_size_log ); __verif_observe( m.head_node_size ); __verif_observe( m.array_node_size );
    VASSERT( m.array_node_size_log >= 2 && m.array_node_size_log >= arr, "array bits: at least 2, never below the request" );
    VASSERT( m.array_node_size_log == ( arr < 2 ? 2 : arr ), "array bits == max(request, 2)" );
    VASSERT( m.head_node_size_log >= 4 || m.head_node_size_log == bits, "head bits: at least 4 (or the whole hash)" );
    VASSERT( m.head_node_size_log >= head || head > bits, "head bits never below the request" );
    VASSERT( m.head_node_size_log <= bits, "head bits never exceed the hash width" );
    VASSERT( ( bits - m.head_node_size_log ) % m.array_node_size_log == 0, "normalised layout consumes all hash bits exactly: (hash_bits - head_bits) mod array_bits == 0" );
    VASSERT( m.head_node_size_log < 64 && m.head_node_size == ( (size_t) 1 << m.head_node_size_log ), "head node size == 2^head bits" );
    VASSERT( m.array_node_size == ( (size_t) 1 << m.array_node_size_log ), "array node size == 2^array bits" );
}
#endif

#ifdef Q_PATH
HFN void h_main()
{
    size_t head = nondet_range( 0, HB < 64 ? HB : HEAD_MAX64 ), arr = nondet_range( 0, 16 );
    metrics_t m = metrics_t::make( head, arr, sizeof( hash_t ));
    VASSUME( m.head_node_size_log < 64 );
    hash_t h1 = (hash_t) nondet_u64(), h2 = (hash_t) nondet_u64();
    splitter_t s1( h1 ), s2( h2 );
    unsigned hl = (unsigned) m.head_node_size_log, al = (unsigned) m.array_node_size_log;
    // "configuration accepted by FeldmanHashSet": the multilevel_array constructor asserts hash_splitter::is_correct() for both
    // widths (number_splitter rejects a cut of the whole word, i.e. head_bits == hash_bits for integral hashes) - precondition, not claim
    VASSUME( splitter_t::is_correct( hl ) && splitter_t::is_correct( al ));
    bool diverged = false; unsigned used = 0; unsigned level = 0;
    // head level
    {
        uint64_t a = (uint64_t) s1.cut( hl ), b = (uint64_t) s2.cut( hl );
        __verif_observe( a ); __verif_observe( b );
        VASSERT( a < m.head_node_size && b < m.head_node_size, "head slot index within the head node" );
        uint64_t ra = hl >= 64 ? (uint64_t) h1 : ( (uint64_t) h1 & (( uint64_t( 1 ) << hl ) - 1 ));
        VASSERT( a == ra, "head slot == low head_bits of the hash" );
        if ( a != b ) diverged = true;
        used = hl;
    }
    for ( level = 0; level < MAXLEVEL; ++level ) {
        if ( used >= HB ) break;
        VASSERT( !s1.eos() && !s2.eos(), "bits remain while the layout has levels left" );
        uint64_t a = (uint64_t) s1.cut( al ), b = (uint64_t) s2.cut( al );
        __verif_observe( a );
        VASSERT( a < m.array_node_size && b < m.array_node_size, "array slot index within the array node" );
        VASSERT( a == ((( (uint64_t) h1 ) >> used ) & (( uint64_t( 1 ) << al ) - 1 )), "array slot == the next array_bits of the hash" );
        if ( a != b ) diverged = true;
        used += al;
    }
    VASSERT( used == HB, "the levels consume all hash bits exactly" );
    VASSERT( s1.eos() && s2.eos(), "splitter is exhausted exactly at the last level" );
    if ( h1 == h2 ) VASSERT( !diverged, "equal hashes follow the same path" );
    else            VASSERT( diverged, "distinct hashes diverge at some level before the bits run out" );
}
#endif
