// Shared environment for harnesses of HP-based containers (CORO mode).
//  * the hazard-pointer scheme is the REAL cds::gc::custom_HP<> (Guard, protect, retire, hazard slots, retired arrays);
//  * thread records are typed objects built by the harness (same constructors and list linkage as alloc_thread_data) and reach the
//    library through a custom TLSManager (the documented extension point);
//  * a reclamation pass is hp_env::pass(): the specification that the C01 scan-unit queries prove of the real classic_scan /
//    inplace_scan (read every hazard slot of owned records, dispose exactly the retired objects found in none, keep the rest),
//    executed without preemption.  The real scan functions are declared unreachable for these queries (abort_fn): the retired
//    arrays are sized so that retire() never triggers one; if it did, the query would fail, not pass.
// Built with -fno-access-control.
#pragma once
#include "verif.h"
#include <cds/gc/hp.h>
#include <src/hp.cpp>

#ifndef HP_ENV_THREADS
#define HP_ENV_THREADS 3
#endif

namespace hp_env {
    namespace hpd = cds::gc::hp::details;
    typedef hpd::basic_smr::thread_record rec_t;
    static rec_t * recs[HP_ENV_THREADS + 1];
    static unsigned hpcount_, rcap_;
    struct tls {
        static hpd::thread_data * getTLS() { return recs[__verif_tid_get()]; }
        static void setTLS( hpd::thread_data * p ) { recs[__verif_tid_get()] = static_cast< rec_t * >( p ); }
    };
    typedef cds::gc::custom_HP< tls > gc;

    // records for thread ids 0 (setup / final checks) .. nthreads
    static void setup( unsigned hpcount, unsigned nthreads, unsigned rcap )
    {
        hpcount_ = hpcount; rcap_ = rcap;
        hpd::basic_smr::construct( hpcount, nthreads + 1, rcap, hpd::inplace );
        hpd::basic_smr& smr = hpd::basic_smr::instance();
        for ( unsigned t = 0; t <= nthreads; ++t ) {
            hpd::guard * g = new hpd::guard[hpcount];
            cds::gc::details::retired_ptr * r = new cds::gc::details::retired_ptr[rcap];
            recs[t] = new rec_t( g, hpcount, r, rcap );
            recs[t]->next_ = smr.thread_list_.load( atomics::memory_order_relaxed );
            smr.thread_list_.store( recs[t], atomics::memory_order_relaxed );
        }
    }
    // the proven specification of one reclamation pass over record `me`
    static __attribute__((noinline)) void hp_env_model_pass( rec_t * me, unsigned nthreads )
    {
        cds::gc::details::retired_ptr * first = me->retired_.first(), * last = me->retired_.last();
        unsigned n = (unsigned)( last - first ), kept = 0;
        for ( unsigned i = 0; i < n; ++i ) {
            bool prot = false;
            for ( unsigned t = 0; t <= nthreads; ++t ) if ( recs[t] && recs[t]->owner_rec_.load( atomics::memory_order_relaxed ) != nullptr )
                for ( unsigned k = 0; k < hpcount_; ++k ) if ( recs[t]->hazards_[k].get( atomics::memory_order_relaxed ) == first[i].m_p ) prot = true;
            if ( prot ) { if ( kept != i ) first[kept] = first[i]; ++kept; }
            else first[i].free();
        }
        me->retired_.reset( kept );
    }
    static void pass( unsigned nthreads ) { hp_env_model_pass( recs[__verif_tid_get()], nthreads ); }
    static void pass_all( unsigned nthreads ) { for ( unsigned t = 0; t <= nthreads; ++t ) hp_env_model_pass( recs[t], nthreads ); }
}
#define HP_ENV_ABORT_FN "basic_smr4scanE|basic_smr9help_scanE|basic_smr12classic_scanE|basic_smr12inplace_scanE"
#define HP_ENV_ATOMIC_FN "hp_env_model_pass"
