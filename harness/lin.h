// Linearizability oracle shared by the concurrent harnesses (DESIGN.md section 3).
// Every client operation records inv = clock() just before its first instruction and res = clock() just after its last
// one (harness code is never interrupted: context switches happen only before atomic operations of the code under test).
// After all threads finished, linearizable<Spec,N>() decides "exists a total order of the N recorded operations that
// respects the real-time order (a.res < b.inv  =>  a before b) and that the sequential specification Spec accepts".
// All N! orders are enumerated inside the harness, so the solver decides it for every schedule at once.
#pragma once
#include "verif.h"

struct op_rec {
    uint8_t  kind;      // spec-defined operation code
    uint32_t arg;       // argument (value pushed, key, ...)
    bool     ok;        // boolean result
    uint32_t val;       // value result (valid if ok and the operation returns a value)
    uint64_t inv, res;  // logical time stamps
};

template <int N> struct fact { enum { value = N * fact<N - 1>::value }; };
template <> struct fact<0> { enum { value = 1 }; };

template <class Spec, int N>
static __attribute__((noinline)) bool linearizable( op_rec const * ops, unsigned n, Spec const& init )
{
    // n <= N operations are live (ops[n..N) are ignored)
    bool found = false;
    for ( unsigned code = 0; code < (unsigned) fact<N>::value; ++code ) {
        // decode the code-th permutation (factoradic)
        unsigned perm[N]; bool used[N];
        for ( int i = 0; i < N; ++i ) used[i] = false;
        unsigned c = code;
        for ( int i = 0; i < N; ++i ) {
            unsigned radix = N - i, d = c % radix; c /= radix;
            unsigned k = 0;
            for ( int j = 0; j < N; ++j ) { if ( !used[j] ) { if ( k == d ) { perm[i] = j; used[j] = true; break; } ++k; } }
        }
        bool good = true;
        // dead slots must stay in index order at the end, so that each order of the live ones is tried (at least) once
        for ( int i = 0; i < N; ++i ) if ( ( perm[i] >= n ) != ( (unsigned) i >= n )) good = false;
        // real-time order
        for ( int i = 0; i < N; ++i ) for ( int j = i + 1; j < N; ++j )
            if ( (unsigned) j < n && ops[perm[j]].res < ops[perm[i]].inv ) good = false;
        Spec s = init;
        for ( int i = 0; i < N; ++i )
            if ( (unsigned) i < n && !s.apply( ops[perm[i]] )) good = false;
        if ( good ) found = true;
    }
    return found;
}
