/* harness-side API (C++).  The same harness source is (1) compiled by clang to LLVM IR and translated to C for
 * cbmc and (2) compiled by g++ against rt/native_rt.cpp for translation validation and counterexample replay. */
#pragma once
#include <stdint.h>
#include <stddef.h>
extern "C" {
    uint8_t  nondet_u8();
    uint16_t nondet_u16();
    uint32_t nondet_u32();
    uint64_t nondet_u64();
    bool     nondet_bool();
    uint64_t nondet_range( uint64_t lo, uint64_t hi );   // arbitrary value in [lo,hi]
    void     __verif_assume( bool c );
    void     __verif_assert( bool c, const char* msg );
    void     __verif_observe( uint64_t v );               // value compared by translation validation
    uint32_t __verif_tid_get();
    void     __verif_run_as( uint32_t t, void (*fn)(void*), void* arg ); // SEQ harnesses: run fn(arg) with the identity (TLS view) of thread t
    uint64_t __verif_clock();                             // global logical clock (inv/res stamps)
}
#define VASSERT( c, msg ) __verif_assert( (c), msg )
#define VASSUME( c ) __verif_assume( (c) )
#define HFN extern "C" __attribute__((noinline, used))
