/* generic driver: included after the generated C.
 *  SEQ : -DVERIF_SEQ           roots: h_main
 *  CORO: -DVERIF_T=<threads> -DVERIF_K=<segments>   roots: h_setup, h_thread1..h_threadT, h_check,
 *        optional h_init (run as each thread before the schedule, yields off), h_fini (after it)          */
#ifdef VERIF_SEQ
int main(void) {
  __verif_noyield = 1; __verif_tid = 0;
  h_main();
  __verif_assert(0, "VERIF-WITNESS end of harness reachable");
#ifndef __CPROVER__
  __verif_rt_end(__verif_rt_failed ? "fail" : "ok");
#endif
  return 0;
}
#else
#if VERIF_T < 2 || VERIF_T > 4
#error VERIF_T out of range
#endif
int main(void) {
  __verif_noyield = 1; __verif_tid = 0;
  h_setup_T0();
#ifdef HAVE_INIT
  __verif_tid = 1; h_init_T1();
  __verif_tid = 2; h_init_T2();
#if VERIF_T >= 3
  __verif_tid = 3; h_init_T3();
#endif
#if VERIF_T >= 4
  __verif_tid = 4; h_init_T4();
#endif
#endif
  __verif_noyield = 0;
  _Bool fin[VERIF_T + 1] = {0};
  unsigned last = 0, nfin = 0;
#if VERIF_T == 2 && !defined(VERIF_PICK_DRIVER)
  /* two threads: consecutive segments belong to different threads anyway, so the schedule is  [T1] T2 T1 T2 ...  with
   * the first slot optional (solver's choice).  K+1 slots cover every schedule of at most K segments; each slot calls
   * exactly one thread function, which halves the symbolic-execution cost compared with a symbolic pick.            */
  _Bool skip_first = nondet_bool();
  (void)last;
  for (int seg = 0; seg < VERIF_K + 1; seg++) {
    if (nfin == VERIF_T) break;
    if (seg == 0 && skip_first) continue;
    __verif_yielding = 0;
    if ((seg & 1) == 0) {
      if (!fin[1]) { __verif_tid = 1; h_thread1_T1(); if (!__verif_yielding) { fin[1] = 1; nfin++; } }
    } else {
      if (!fin[2]) { __verif_tid = 2; h_thread2_T2(); if (!__verif_yielding) { fin[2] = 1; nfin++; } }
    }
  }
#else
  for (int seg = 0; seg < VERIF_K; seg++) {
    if (nfin == VERIF_T) break;
    unsigned pick = (unsigned)nondet_range(1, VERIF_T);
    __verif_assume(!fin[pick]);
    __verif_assume(pick != last);          /* re-picking the thread that just yielded == not yielding */
    __verif_yielding = 0; __verif_tid = (int)pick;
    switch (pick) {
      case 1: h_thread1_T1(); break;
      case 2: h_thread2_T2(); break;
#if VERIF_T >= 3
      case 3: h_thread3_T3(); break;
#endif
#if VERIF_T >= 4
      case 4: h_thread4_T4(); break;
#endif
    }
    if (!__verif_yielding) { fin[pick] = 1; nfin++; last = 0; } else last = pick;
  }
#endif
  __verif_assume(nfin == VERIF_T);         /* schedules needing more than VERIF_K segments: outside the claim */
  __verif_noyield = 1;
#ifdef HAVE_FINI
  __verif_tid = 1; h_fini_T1();
  __verif_tid = 2; h_fini_T2();
#if VERIF_T >= 3
  __verif_tid = 3; h_fini_T3();
#endif
#if VERIF_T >= 4
  __verif_tid = 4; h_fini_T4();
#endif
#endif
  __verif_tid = 0;
  h_check_T0();
  __verif_assert(0, "VERIF-WITNESS end of harness reachable");
#ifndef __CPROVER__
  __verif_rt_end(__verif_rt_failed ? "fail" : "ok");
#endif
  return 0;
}
#endif
