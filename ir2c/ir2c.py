#!/usr/bin/env python3
"""ir2c: LLVM-14 IR (typed pointers, clang -O1/-O0 output of libcds wrappers) -> C for CBMC.

Two emission modes from the same IR:
  SEQ   every function becomes one C function (no context switches)
  CORO  every function that (transitively) executes an atomic instruction or a blocking call is
        emitted once per harness thread as a re-entrant coroutine; a context switch may happen
        immediately before every atomic instruction / blocking call (see DESIGN.md 2.2)

usage: ir2c.py IN.ll OUT.c --roots a,b,c [--threads N] [--coro] [--shift-check] [--spin REGEX=U ...]
       [--report OUT.json]
Anything the translator does not understand raises (exit 2); it never guesses.
"""
import re, sys, os, json, collections, argparse
sys.path.insert(0, os.path.dirname(os.path.abspath(__file__)))
from irparse import *
sys.setrecursionlimit(10000)

class Unsupported(Exception):
    pass

# external functions that are provided by prelude.h under the same name (harness API + libc subset)
PRELUDE_EXTERNALS = set('''nondet_u8 nondet_u16 nondet_u32 nondet_u64 nondet_bool nondet_int nondet_range
 __verif_assume __verif_observe __verif_tid_get __verif_run_as
 __verif_clock memcmp strlen memchr'''.split())

# blocking primitives: yield point, then assume(available)
BLOCKING = {
    'pthread_mutex_lock': '__verif_mutex_lock',
    'pthread_cond_wait': None,   # filled when a harness needs it
}
# yield-point libcalls (atomic libcalls clang emits without -mcx16 etc.)
ATOMIC_LIBCALLS = {
    '__atomic_compare_exchange_16': '__verif_atomic_cas16',
    '__atomic_load_16': '__verif_atomic_load16',
    '__atomic_store_16': '__verif_atomic_store16',
    '__atomic_exchange_16': '__verif_atomic_xchg16',
    '__atomic_load': '__verif_atomic_load_n', '__atomic_store': '__verif_atomic_store_n',
    '__atomic_exchange': '__verif_atomic_xchg_n', '__atomic_compare_exchange': '__verif_atomic_cas_n',
}

def default_stubs():
    return {
        '_Znwm': '__verif_new', '_Znam': '__verif_new', '_ZdlPv': '__verif_delete', '_ZdaPv': '__verif_delete',
        '_ZnwmRKSt9nothrow_t': lambda a: '__verif_new(%s)' % a[0], '_ZnamRKSt9nothrow_t': lambda a: '__verif_new(%s)' % a[0],
        '_ZdlPvm': lambda a: '__verif_delete(%s)' % a[0], '_ZdaPvm': lambda a: '__verif_delete(%s)' % a[0],
        '_ZnwmSt11align_val_t': lambda a: '__verif_new(%s)' % a[0], '_ZdlPvSt11align_val_t': lambda a: '__verif_delete(%s)' % a[0],
        '_ZdlPvmSt11align_val_t': lambda a: '__verif_delete(%s)' % a[0],
        'malloc': '__verif_new', 'free': '__verif_delete', 'calloc': '__verif_calloc',
        'posix_memalign': '__verif_posix_memalign', 'aligned_alloc': lambda a: '__verif_new(%s)' % a[1],
        'memalign': lambda a: '__verif_new(%s)' % a[1],
        'abort': '__verif_abort', 'printf': lambda a: '0', 'puts': lambda a: '0', 'fprintf': lambda a: '0',
        'fwrite': lambda a: '0', 'fputs': lambda a: '0', 'fputc': lambda a: '0', 'putchar': lambda a: '0',
        '__assert_fail': lambda a: '__verif_abort()',
        're:throw_exception': lambda a: '__verif_abort()',
        're:^_ZSt[0-9]+__throw_': lambda a: '__verif_abort()',
        '_ZSt9terminatev': lambda a: '__verif_abort()',
        '__cxa_pure_virtual': lambda a: '__verif_abort()',
        're:^_ZTH': lambda a: '(void)0',
        # libstdc++ std::__introsort_loop(first, last, depth, cmp) only acts on ranges longer than _S_threshold = 16 elements
        # (while (last - first > 16) ...); for shorter ranges it returns at once and __final_insertion_sort does the sorting.
        # Its recursion + nested loops make cbmc's symbolic execution explode, so it is replaced by exactly that precondition.
        # std::vector growth beyond its capacity: classic_scan reserves max_threads*hp_count first, so reaching a reallocation is an error
        # that the solver reports; not expanding it keeps symbolic execution out of the relocation loops
        're:_M_realloc_insert': lambda a: '__verif_abort_msg("std::vector reallocation reached (capacity was reserved)")',
        # std::sort(first, last[, cmp]) as a call (IR built without inlining): fixed-size sorting network on the first word, see prelude.h
        're:^_ZSt4sortI': lambda a: '__verif_sort_words(%s, %s, sizeof(*%s))' % (a[0], a[1], a[0]),
        're:^_ZSt16__introsort_loop': lambda a: '__verif_assert((uintptr_t)%s - (uintptr_t)%s <= 16 * sizeof(*%s), "std::sort on more than 16 elements (introsort phase not modelled)")' % (a[1], a[0], a[0]),
        'sched_yield': lambda a: '0',
        'nanosleep': lambda a: '0',
        '__cxa_atexit': lambda a: '0',
        '__cxa_guard_acquire': '__verif_guard_acquire', '__cxa_guard_release': '__verif_guard_release',
        '__cxa_guard_abort': lambda a: '(void)0',
        'pthread_self': lambda a: '__verif_pthread_self()',
        '_ZSt11_Hash_bytesPKvmm': '__verif_hash_bytes',
        'pthread_mutex_unlock': '__verif_mutex_unlock', 'pthread_mutex_trylock': '__verif_mutex_trylock_rc',
        'pthread_mutex_init': '__verif_mutex_init', 'pthread_mutex_destroy': lambda a: '0',
        'pthread_mutexattr_init': '__verif_mutexattr_init', 'pthread_mutexattr_settype': '__verif_mutexattr_settype',
        'pthread_mutexattr_destroy': lambda a: '0',
        '__verif_assert': None,   # handled specially
    }

class Emit:
    def __init__(s, m, roots, nthreads=1, coro=False, shift_check=False, spin=None, nsw_check=False, guard_style=True, atomic_rx=None, abort_rx=None, fine_rx=None):
        s.m = m; s.names = {}; s.used = set(); s.lit = collections.OrderedDict()
        s.roots = roots; s.stubs = default_stubs(); s.externs = set(); s.asm_seen = set()
        s.yielders = set(); s.nthreads = nthreads; s.tid = None; s.coro = coro
        s.shift_check = shift_check; s.nsw_check = nsw_check; s.guard_style = guard_style
        s.fine_rx = fine_rx          # functions in which EVERY load/store of non-local memory is a context-switch point (data races become visible)
        s.abort_rx = abort_rx        # calls to functions matching it are not expanded: reaching one is reported as a failure (path ends)
        s.atomic_rx = atomic_rx      # calls to yield-capable functions matching it run without preemption (one context-switch point before the call)
        s.spin = spin or []          # list of (compiled regex, U)
        s.report = {'functions': {}, 'stubs_used': set(), 'asm': set(), 'spin_loops': [], 'yield_points': 0,
                    'externals': [], 'intrinsics': set()}
        s.strs = {}

    # ---------------- names
    def cname(s, n):
        if n in s.names: return s.names[n]
        raw = n[1:]
        if raw.startswith('"'): raw = raw[1:-1]
        c = re.sub(r'[^A-Za-z0-9_]', '_', raw)
        if re.match(r'^[0-9]', c): c = 'g_' + c
        if c in PRELUDE_EXTERNALS or c.startswith('__verif') or c.startswith('__CPROVER') or c in ('main',):
            c = 'u_' + c
        base = c; k = 0
        while c in s.used: k += 1; c = '%s_%d' % (base, k)
        s.used.add(c); s.names[n] = c
        return c

    def tname(s, n):
        return 'T_' + re.sub(r'[^A-Za-z0-9_]', '_', n[1:].strip('"'))

    def cty(s, t, name=''):
        if isinstance(t, IntTy):
            n = t.n
            if n > 128: raise Unsupported('integer wider than 128 bits')
            b = 'unsigned char' if n <= 8 else 'uint16_t' if n <= 16 else 'uint32_t' if n <= 32 else 'uint64_t' if n <= 64 else 'unsigned __int128'
            return (b + ' ' + name).strip()
        if isinstance(t, VoidTy): return ('void ' + name).strip()
        if isinstance(t, FloatTy):
            if t.k == 'float': return ('float ' + name).strip()
            if t.k == 'double': return ('double ' + name).strip()
            raise Unsupported('float type ' + t.k)
        if isinstance(t, NamedTy):
            return ('struct %s %s' % (s.tname(t.name), name)).strip()
        if isinstance(t, StructTy):
            k = t.key()
            if k not in s.lit: s.lit[k] = (t, 'L_%d' % len(s.lit))
            return ('struct %s %s' % (s.lit[k][1], name)).strip()
        if isinstance(t, PtrTy):
            if isinstance(t.to, (FnTy, ArrTy)): return s.cty(t.to, '(*%s)' % name)
            if isinstance(t.to, VoidTy): return ('void *' + name)
            return s.cty(t.to, '*' + name)
        if isinstance(t, ArrTy):
            return s.cty(t.el, '%s[%d]' % (name, t.n))
        if isinstance(t, FnTy):
            ps = ', '.join(s.cty(p) for p in t.params)
            if t.va: ps = (ps + ', ...') if ps else ''
            elif not ps: ps = 'void'
            return s.cty(t.ret, '%s(%s)' % (name, ps))
        if isinstance(t, OpaqueTy): return 'struct opaque ' + name
        raise TypeError(t)

    def resolve(s, t):
        while isinstance(t, NamedTy): t = s.m.types[t.name]
        return t

    def mask(s, t, e):
        if isinstance(t, IntTy) and t.n not in (8, 16, 32, 64, 128):
            return '((%s) & %s)' % (e, hex((1 << t.n) - 1) + 'ULL')
        return e

    def sgn(s, t, e):
        n = t.n
        if n in (8, 16, 32, 64):
            return '((int%d_t)(%s))' % (n, e)
        if n == 128: return '((__int128)(%s))' % e
        if n == 1: return '((int8_t)-(int8_t)((%s)&1))' % e
        w = 8 if n < 8 else 16 if n < 16 else 32 if n < 32 else 64
        return '((int%d_t)((int%d_t)((uint%d_t)(%s) << %d) >> %d))' % (w, w, w, e, w-n, w-n)

    # ---------------- values
    def val(s, t, v):
        k = v[0]
        if k == 'reg': return s.fnames[v[1]]
        if k == 'glob':
            n = v[1]
            g = s.m.globs.get(n)
            if g is not None and g.alias and g.init[0] in ('glob', 'cexpr'):
                return s.val(t, g.init)
            s.need(n)
            if n in s.m.funcs: return s.cname(n)
            if g is None: raise KeyError(n)
            if g.tls: return '(&%s[%s])' % (s.cname(n), s.tid if s.tid is not None else '__verif_tid')
            return '(&%s)' % s.cname(n)
        if k == 'int':
            n = v[1]
            if isinstance(t, IntTy):
                n &= (1 << t.n) - 1
                if t.n <= 64: return '((%s)%dULL)' % (s.cty(t), n)
                return '((((unsigned __int128)%dULL) << 64) | (unsigned __int128)%dULL)' % (n >> 64, n & ((1 << 64) - 1))
            return str(n)
        if k == 'null': return '((%s)0)' % s.cty(t)
        if k == 'undef' or k == 'zero':
            rt = s.resolve(t)
            if isinstance(rt, (StructTy, ArrTy)):
                return '((%s){0})' % s.cty(t)
            return '((%s)0)' % s.cty(t)
        if k == 'flt': return '((%s)%s)' % (s.cty(t), v[1])
        if k == 'cexpr':
            if v[1] == 'gep': return s.gep(v[2], v[3], v[4])
            if v[1] == 'cast': return s.cast(v[2], v[3][0], s.val(*v[3]), v[4])
            if v[1] == 'icmp': return s.icmp(v[2], v[3][0], s.val(*v[3]), s.val(*v[4]))
            if v[1] == 'bin': return s.binop(v[2], v[3][0], s.val(*v[3]), s.val(*v[4]))
            if v[1] == 'select':
                a = v[2]; return '(%s ? %s : %s)' % (s.val(*a[0]), s.val(*a[1]), s.val(*a[2]))
        if k == 'agg':
            return '((%s){' % s.cty(t) + ', '.join(s.init(et, ev) for et, ev in v[1]) + '})'
        if k == 'cstr':
            return '{' + ','.join(str(b) for b in v[1]) + '}'
        raise ValueError(v)

    def init(s, t, v):
        k = v[0]
        rt = s.resolve(t)
        if k == 'zero' or k == 'undef':
            return '{0}' if isinstance(rt, (StructTy, ArrTy)) else '0'
        if k == 'agg':
            return '{' + ', '.join(s.init(et, ev) for et, ev in v[1]) + '}'
        return s.val(t, v)

    def gep_result_ty(s, bty, idx):
        cur = bty
        for (it, iv) in idx[1:]:
            rr = s.resolve(cur)
            if isinstance(rr, StructTy): cur = rr.els[iv[1]]
            elif isinstance(rr, ArrTy): cur = rr.el
            else: raise Unsupported('gep into non-aggregate')
        return cur

    def gep(s, bty, base, idx):
        bt, bv = base
        e = s.val(bt, bv)
        first = s.val(*idx[0])
        cur = bty
        if idx[0][1] == ('int', 0): e = '(*%s)' % e
        else: e = '(%s)[%s]' % (e, s.idxsgn(idx[0], first))
        for (it, iv) in idx[1:]:
            r = s.resolve(cur)
            if isinstance(r, StructTy):
                n = iv[1]; e += '.f%d' % n; cur = r.els[n]
            elif isinstance(r, ArrTy):
                e += '[%s]' % s.idxsgn((it, iv), s.val(it, iv)); cur = r.el
            else: raise Unsupported('gep into %r' % r)
        return '(&%s)' % e

    def idxsgn(s, tv_, e):
        t, v = tv_
        if v[0] == 'int':
            n = v[1] & ((1 << t.n) - 1)
            if n >= 1 << (t.n - 1): n -= 1 << t.n
            return str(n)
        return '(int64_t)' + s.sgn(t, e)

    def cast(s, op, ft, e, tt):
        if op in ('bitcast', 'addrspacecast'):
            if isinstance(ft, PtrTy) or isinstance(tt, PtrTy): return '((%s)%s)' % (s.cty(tt), e)
            if isinstance(ft, FloatTy) or isinstance(tt, FloatTy): raise Unsupported('float<->int bitcast')
            return '((%s)%s)' % (s.cty(tt), e)
        if op == 'inttoptr': return '((%s)(uintptr_t)%s)' % (s.cty(tt), e)
        if op == 'ptrtoint': return s.mask(tt, '((%s)(uintptr_t)%s)' % (s.cty(tt), e))
        if op == 'trunc': return s.mask(tt, '((%s)%s)' % (s.cty(tt), e))
        if op == 'zext': return '((%s)%s)' % (s.cty(tt), e)
        if op == 'sext': return s.mask(tt, '((%s)%s)' % (s.cty(tt), s.sgn(ft, e)))
        if op in ('uitofp', 'fpext', 'fptrunc', 'fptoui'): return s.mask(tt, '((%s)%s)' % (s.cty(tt), e))
        if op == 'sitofp': return '((%s)%s)' % (s.cty(tt), s.sgn(ft, e))
        if op == 'fptosi': return s.mask(tt, '((%s)(int64_t)%s)' % (s.cty(tt), e))
        raise ValueError(op)

    def icmp(s, pred, t, a, b):
        ops = {'eq': '==', 'ne': '!=', 'ugt': '>', 'uge': '>=', 'ult': '<', 'ule': '<=', 'sgt': '>', 'sge': '>=', 'slt': '<', 'sle': '<='}
        if isinstance(t, PtrTy):
            if pred in ('eq', 'ne'): return '((unsigned char)(%s %s %s))' % (a, ops[pred], b)
            if pred[0] == 's': return '((unsigned char)((intptr_t)%s %s (intptr_t)%s))' % (a, ops[pred], b)
            return '((unsigned char)((uintptr_t)%s %s (uintptr_t)%s))' % (a, ops[pred], b)
        if pred[0] == 's': a = s.sgn(t, a); b = s.sgn(t, b)
        elif t.n < 32: a = '(uint32_t)' + a; b = '(uint32_t)' + b
        return '((unsigned char)(%s %s %s))' % (a, ops[pred], b)

    def binop(s, op, t, a, b, checks=None, flags=()):
        ct = s.cty(t)
        w = '(%s)' % ct
        n = t.n
        ua, ub = a, b
        if n < 32: ua = '(uint32_t)' + a; ub = '(uint32_t)' + b
        if op in ('add', 'sub', 'mul', 'and', 'or', 'xor'):
            c = {'add': '+', 'sub': '-', 'mul': '*', 'and': '&', 'or': '|', 'xor': '^'}[op]
            return s.mask(t, '(%s(%s %s %s))' % (w, ua, c, ub))
        if op in ('udiv', 'urem'):
            c = '/' if op == 'udiv' else '%'
            if checks is not None: checks.append('__verif_assert(%s != 0, "division by zero");' % b)
            return s.mask(t, '(%s(%s %s %s))' % (w, ua, c, ub))
        if op in ('shl', 'lshr', 'ashr'):
            if checks is not None and s.shift_check:
                checks.append('__verif_assert(%s < %d, "shift distance too large (undefined behaviour in the source)");' % (ub, n))
            inr = '(%s < %d)' % (ub, n)
            und = '(%s)__verif_poison()' % ct
            if op == 'shl': r = s.mask(t, '(%s(%s << %s))' % (w, ua, ub))
            elif op == 'lshr': r = '(%s(%s >> %s))' % (w, ua, ub)
            else: r = s.mask(t, '(%s(%s >> %s))' % (w, s.sgn(t, a), ub))
            mm_ = re.fullmatch(r'\(\([a-z0-9_ ]+\)(\d+)ULL\)', b)
            if mm_ and int(mm_.group(1)) < n: return r
            return '(%s ? %s : %s)' % (inr, r, und)
        if op in ('sdiv', 'srem'):
            c = '/' if op == 'sdiv' else '%'
            if checks is not None:
                checks.append('__verif_assert(%s != 0, "division by zero");' % b)
            return s.mask(t, '(%s(%s %s %s))' % (w, s.sgn(t, a), c, s.sgn(t, b)))
        raise ValueError(op)

    def is_stubbed(s, n):
        raw = n[1:]
        if raw in s.stubs or raw in BLOCKING or raw in ATOMIC_LIBCALLS or raw in PRELUDE_EXTERNALS: return True
        return any(p.startswith('re:') and re.search(p[3:], raw) for p in s.stubs)

    def fnty_key(s, f):
        return '%s(%s)' % (f.ret.key(), ','.join(t.key() for (t, _) in f.params))

    def need(s, n):
        if n not in s.reach:
            s.reach.add(n); s.work.append(n)

    # ---------------- analysis helpers
    def is_yield_inst(s, I):
        op = I['op']
        if op in ('cmpxchg', 'atomicrmw', 'fence'): return True
        if op in ('load', 'store') and (I['atomic'] or s.fine_access(I)): return True
        if op in ('call', 'invoke'):
            c = I['callee']
            if c[0] == 'glob':
                raw = c[1][1:]
                if raw in BLOCKING or raw in ATOMIC_LIBCALLS: return True
                if c[1] in s.yielders: return True
            elif c[0] != 'asm':
                if I.get('_ycands'): return True
        return False

    def fine_access(s, I):
        """plain load/store that is a context-switch point because the current function is in fine-grained mode (not for allocas)"""
        if not getattr(s, 'fine_cur', False): return False
        p = I['ptr'][1]
        if p[0] == 'reg' and p[1] in getattr(s, 'cur_allocas', ()): return False
        return True

    def back_edges(s, f):
        blocks = list(f.blocks)
        succ = {}
        for bn, insts in f.blocks.items():
            t = insts[-1] if insts else None
            ss = []
            if t is not None:
                if t['op'] == 'br': ss = [t['dest']] if 'dest' in t else [t['t'], t['f']]
                elif t['op'] == 'switch': ss = [t['default']] + [lb for (_, lb) in t['cases']]
                elif t['op'] == 'invoke': ss = [t['normal']]
            succ[bn] = ss
        color = {}; be = set(); post = []
        stack = [(blocks[0], iter(succ[blocks[0]]))]; color[blocks[0]] = 1
        while stack:
            bn, it = stack[-1]
            adv = False
            for nx in it:
                if color.get(nx, 0) == 0:
                    color[nx] = 1; stack.append((nx, iter(succ[nx]))); adv = True; break
                elif color[nx] == 1:
                    be.add((bn, nx))
            if not adv:
                color[bn] = 2; stack.pop(); post.append(bn)
        s.last_rpo = list(reversed(post))
        return be

    def succs(s, f):
        succ = {}
        for bn, insts in f.blocks.items():
            t = insts[-1] if insts else None
            ss = []
            if t is not None:
                if t['op'] == 'br': ss = [t['dest']] if 'dest' in t else [t['t'], t['f']]
                elif t['op'] == 'switch': ss = [t['default']] + [lb for (_, lb) in t['cases']]
                elif t['op'] == 'invoke': ss = [t['normal']]
            succ[bn] = ss
        return succ

    def loop_order(s, f, rpo, bedges):
        """Block order for the C text: topological w.r.t. all non-back edges, every natural loop contiguous with its inner loops nested inside it,
        and (latch_after) the block after which the single latch of each loop header is emitted = the last block of that loop.
        cbmc unwinds per backward goto and merges paths only at forward-goto targets in text order; with loop bodies scattered (plain RPO) the
        latch of an outer loop is visited once per unwinding of an inner loop and code is re-walked."""
        succ = s.succs(f)
        reach = set(rpo)
        pred = {b: [] for b in reach}
        for b in reach:
            for x in succ[b]:
                if x in reach: pred[x].append(b)
        headers = sorted(set(h for (_, h) in bedges), key=lambda b: rpo.index(b))
        body = {}
        for h in headers:
            bd = {h}; work = [src for (src, t) in bedges if t == h]
            while work:
                x = work.pop()
                if x in bd: continue
                bd.add(x); work.extend(pred[x])
            body[h] = bd
        idx = {b: i for i, b in enumerate(rpo)}
        def order_region(nodes, entry):
            # loops directly inside this region (maximal): headers in nodes (other than the region's own header) not contained in another such loop
            inner = [h for h in headers if h in nodes and h != entry and body[h] <= nodes]
            top = [h for h in inner if not any(h != g and h in body[g] for g in inner)]
            rep = {}
            for h in top:
                for b in body[h]: rep[b] = h
            def R(b): return rep.get(b, b)
            # collapsed DAG over representatives
            reps = sorted(set(R(b) for b in nodes), key=lambda b: idx[b])
            adj = {r: set() for r in reps}; indeg = {r: 0 for r in reps}
            for b in nodes:
                for x in succ[b]:
                    if x not in nodes or (b, x) in bedges: continue
                    rb, rx = R(b), R(x)
                    if rb != rx and rx not in adj[rb]:
                        adj[rb].add(rx); indeg[rx] += 1
            out = []; ready = [r for r in reps if indeg[r] == 0]
            while ready:
                ready.sort(key=lambda b: idx[b])
                r = ready.pop(0)
                if r in top: out.extend(order_region(body[r], r))
                else: out.append(r)
                for x in adj[r]:
                    indeg[x] -= 1
                    if indeg[x] == 0: ready.append(x)
            if len(set(out)) != len(nodes): raise Unsupported('irreducible control flow in ' + f.name)
            return out
        order = order_region(reach, rpo[0])
        pos = {b: i for i, b in enumerate(order)}
        latch_after = {}
        for h in headers:
            last = max(body[h], key=lambda b: pos[b])
            latch_after.setdefault(last, []).append(h)
        for k in latch_after: latch_after[k].sort(key=lambda h: -pos[h])      # inner loop's latch first
        return order, latch_after

    # ---------------- function body
    def emit_fn(s, f, tid=None):
        s.tid = tid; coro = tid is not None; s.ny = 0; resume = []; s.cur_f = f
        s.fine_cur = bool(coro and s.fine_rx is not None and s.fine_rx.search(f.name[1:].strip('"')))
        s.cur_allocas = set(I['res'] for insts in f.blocks.values() for I in insts if I['op'] == 'alloca')
        gs = coro and s.guard_style      # guarded-execution clones (MODE flag) vs goto-dispatch clones (jump to the resume label, return at a yield)
        s.gs = gs
        s.fnames = {}
        used = set()
        def local(n):
            raw = re.sub(r'[^A-Za-z0-9_]', '_', n[1:].strip('"'))
            c = 'r' + raw if raw[0].isdigit() else 'v_' + raw
            while c in used: c += '_'
            used.add(c); s.fnames[n] = c; return c
        for (t, n) in f.params: local(n)
        for bn, insts in f.blocks.items():
            for I in insts:
                if I['res']: local(I['res'])
        # ---- pointer shadows.  clang lowers atomic<T*> accesses to i64 loads/stores/cmpxchg + inttoptr/ptrtoint.  cbmc tracks points-to sets
        # only through pointer-typed values: a pointer that travels through an integer VARIABLE is dereferenced into a fresh "$object"
        # (stores are lost, loads return garbage - unsound in both directions; met on c01_coro).  Every i64 value that flows into an
        # inttoptr therefore gets a pointer-typed twin (<name>_p) that is loaded/stored/copied alongside and is what inttoptr uses.
        idefs = {}
        for bn, insts in f.blocks.items():
            for I in insts:
                if I['res']: idefs[I['res']] = I
        def is_i64(t): return isinstance(t, IntTy) and t.n == 64
        S = set(); work = []
        for bn, insts in f.blocks.items():
            for I in insts:
                if I['op'] == 'inttoptr' and I['a'][0] == 'reg' and is_i64(I['fty']): work.append(I['a'][1])
        while work:
            v = work.pop()
            if v in S or v not in idefs: continue
            D = idefs[v]; op_ = D['op']
            if op_ == 'phi' and is_i64(D['ty']):
                S.add(v)
                for (iv, pb) in D['inc']:
                    if iv[0] == 'reg': work.append(iv[1])
            elif op_ == 'select' and is_i64(D['a'][0]):
                S.add(v)
                for k_ in ('a', 'b'):
                    if D[k_][1][0] == 'reg': work.append(D[k_][1][1])
            elif op_ == 'load' and is_i64(D['ty']): S.add(v)
            elif op_ == 'atomicrmw' and D['rmw'] == 'xchg' and is_i64(D['val'][0]): S.add(v)
            elif op_ == 'extractvalue' and D['idx'] == [0] and D['a'][1][0] == 'reg' and idefs.get(D['a'][1][1], {}).get('op') == 'cmpxchg' and is_i64(idefs[D['a'][1][1]]['cmp'][0]):
                S.add(v); S.add(D['a'][1][1])
            elif op_ == 'freeze' and is_i64(D['ty']):
                S.add(v)
                if D['a'][0] == 'reg': work.append(D['a'][1])
        for bn, insts in f.blocks.items():
            for I in insts:
                if I['op'] == 'ptrtoint' and I['res'] and is_i64(I['tty']): S.add(I['res'])      # twin assigned at the ptrtoint itself
        s.ptr_shadow = S
        VOIDP = PtrTy(IntTy(8))
        def shadow(t, v):
            """pointer-typed C expression for the i64 operand (t, v)"""
            if v[0] == 'reg':
                if v[1] in S and idefs[v[1]]['op'] != 'cmpxchg': return s.fnames[v[1]] + '_p'
            return '((unsigned char *)(uintptr_t)%s)' % s.val(t, v)
        def has_shadow(v):
            return v[0] == 'reg' and v[1] in S and idefs[v[1]]['op'] != 'cmpxchg'
        # indirect call candidates (needed by is_yield_inst)
        for bn, insts in f.blocks.items():
            for I in insts:
                if I['op'] in ('call', 'invoke') and I['callee'][0] not in ('glob', 'asm'):
                    rt = I['rty']
                    if isinstance(rt, FnTy): rt = rt.ret
                    fty = '%s(%s)' % (rt.key(), ','.join(t.key() for (t, _) in I['args']))
                    cands = sorted(n for n in s.bysig.get(fty, ()))
                    I['_cands'] = cands
                    I['_ycands'] = [n for n in cands if n in s.yielders]
        # which values must survive a yield (static in coroutine clones)
        static_vals = set()
        if coro:
            defs = {}
            for bn, insts in f.blocks.items():
                for i, I in enumerate(insts):
                    if I['res']: defs[I['res']] = (bn, i)
            def uses_of(I):
                out = []
                def walk(v):
                    if isinstance(v, tuple):
                        if len(v) == 2 and v[0] == 'reg' and isinstance(v[1], str): out.append(v[1])
                        else:
                            for x in v: walk(x)
                    elif isinstance(v, list):
                        for x in v: walk(x)
                for k, v in I.items():
                    if k in ('res', 'op', 'line', 'inc'): continue
                    walk(v)
                return out
            ypos = {bn: [i for i, I in enumerate(insts) if s.is_yield_inst(I)] for bn, insts in f.blocks.items()}
            uses = []   # (block, index, reg)
            for bn, insts in f.blocks.items():
                for j, I in enumerate(insts):
                    if I['op'] == 'phi':
                        defs[I['res']] = (bn, -1)
                        for (v, pb) in I['inc']:
                            for u in uses_of({'x': v}): uses.append((pb, len(f.blocks[pb]) - 1, u))
                    else:
                        for u in uses_of(I): uses.append((bn, j, u))
            for (ub, uj, u) in uses:
                if u not in defs: continue      # parameter (always static in clones)
                db, di = defs[u]
                if db != ub: static_vals.add(u)
                elif uj <= di: static_vals.add(u)   # loop-carried within one block
                elif any(di < y <= uj for y in ypos[ub]): static_vals.add(u)
        body = []; decls = []; sdecls = []
        def declare(t, name, res=None):
            d = s.cty(t, name) + ';'
            if gs: sdecls.append('static ' + d)      # every value persists: a resumed clone re-walks its CFG with execution switched off
            elif coro and (res is None or res in static_vals or os.environ.get('VERIF_ALL_STATIC')): sdecls.append('static ' + d)
            else: decls.append(d)
        retdummy = ''
        if coro and not isinstance(f.ret, VoidTy):
            retdummy = ' retdummy_'
        s.gopen = False
        def g_open():
            if gs and not s.gopen: body.append('  if (MODE == 1) {'); s.gopen = True
        def g_close():
            if s.gopen: body.append('  }'); s.gopen = False
        s.g_open = g_open; s.g_close = g_close
        def yld(kind):
            if not coro: return
            s.ny += 1; i = s.ny; resume.append((i, 'Y%d' % i)); s.report['yield_points'] += 1
            if not gs:
                body.append('  if (__verif_yield()) { PC = %d; __verif_yielding = 1; return%s; } Y%d: ; /* before %s */' % (i, ' RETV' if retdummy else '', i, kind))
                return
            g_close()
            body.append('  if (MODE == 1) { if (__verif_yield()) { PC = %d; MODE = 2; __verif_yielding = 1; } } else if (MODE == 0 && PC == %d) { MODE = 1; } /* before %s */' % (i, i, kind))
            g_open()
        s.coro_resume = resume; s.coro_retdummy = retdummy
        labels = {bn: 'L' + re.sub(r'[^A-Za-z0-9_]', '_', bn[1:].strip('"')) for bn in f.blocks}
        phis = collections.defaultdict(list)
        for bn, insts in f.blocks.items():
            for I in insts:
                if I['op'] == 'phi':
                    for (v, pb) in I['inc']:
                        phis[(pb, bn)].append((I['res'], I['ty'], v))
        # spin-loop cut
        spinU = None
        raw_name = f.name[1:].strip('"')
        for (rx, U) in s.spin:
            if rx.search(raw_name): spinU = U
        all_bedges = s.back_edges(f)
        rpo = s.last_rpo            # blocks are emitted in reverse post-order: every edge that is not a DFS back edge goes forward in the C text,
                                    # and every loop header gets ONE latch (the only backward goto), so that cbmc's per-goto unwinding counter
                                    # counts iterations of the loop and symex never re-walks code through a backward non-loop jump
        rpo, latch_after = s.loop_order(f, rpo, all_bedges)    # loop bodies contiguous (inner loops nested), latch of a loop after its last block
        bedges = all_bedges if spinU is not None else set()
        spin_ctr = {}; hdr_ctr = {}
        for e in sorted(bedges):
            # one counter per loop header: a loop with several back edges (continue statements) shares it
            if e[1] not in hdr_ctr:
                k = len(hdr_ctr); hdr_ctr[e[1]] = 'spin_%d' % k
                (sdecls if coro else decls).append(('static ' if coro else '') + 'unsigned spin_%d%s;' % (k, '' if coro else ' = 0'))
            spin_ctr[e] = hdr_ctr[e[1]]
            s.report['spin_loops'].append({'function': raw_name, 'edge': [e[0], e[1]], 'U': spinU})
        def jump(frm, to):
            if gs:
                # execution switched off (MODE 0: walking to the resume point, MODE 2: already yielded): follow the edge without
                # its phi copies; a back edge is never followed then (MODE 0 cannot reach one in a reducible CFG - asserted)
                cp = jump_run(frm, to)
                if (frm, to) in all_bedges:
                    return 'if (MODE == 1) { %s } __verif_assert(MODE != 0, "coroutine resume reached a loop back edge"); goto LEND;' % cp
                if cp == 'goto %s;' % labels[to]: return cp
                return 'if (MODE == 1) { %s } goto %s;' % (cp, labels[to])
            return jump_run(frm, to)
        def latch_label(h): return 'LATCH_' + labels[h][1:]
        def jump_run(frm, to):
            mv = phis.get((frm, to), [])
            out = ''
            is_back = (frm, to) in all_bedges
            mvx = []       # (destination C name, C declaration of a temporary, value expression)
            for (d, t, v) in mv:
                mvx.append((s.fnames[d], s.cty(t, 'phi_t%d' % len(mvx)), s.val(t, v)))
                if d in S: mvx.append((s.fnames[d] + '_p', 'unsigned char *phi_t%d' % len(mvx), shadow(t, v)))
            if len(mvx) == 1:
                out += '%s = %s; ' % (mvx[0][0], mvx[0][2])
            elif mvx:
                o2 = ''
                for i, (dn, decl, ve) in enumerate(mvx): o2 += '%s = %s; ' % (decl, ve)
                for i, (dn, decl, ve) in enumerate(mvx): o2 += '%s = phi_t%d; ' % (dn, i)
                out += '{ ' + o2 + '} '
            return out + 'goto %s;' % (latch_label(to) if is_back else labels[to])
        def emit_latches(bn):
            for h in latch_after.get(bn, []):
                g_close()
                sp = ''
                if (bn, h) in spin_ctr or any((f_, h) in spin_ctr for (f_, t_) in all_bedges if t_ == h):
                    ctr = next(spin_ctr[e] for e in spin_ctr if e[1] == h)
                    sp = 'if (++%s > %d) __verif_assume(0); ' % (ctr, spinU)
                body.append('%s: ; %sgoto %s;' % (latch_label(h), sp, labels[h]))
        emit_order = [b for b in rpo if b in f.blocks]         # blocks unreachable from the entry are dropped
        prev_bn = None
        for bn in emit_order:
            insts = f.blocks[bn]
            if prev_bn is not None: emit_latches(prev_bn)
            prev_bn = bn
            g_close()
            body.append('%s: ;' % labels[bn])
            for I in insts:
                op = I['op']; r = I['res']; rn = s.fnames.get(r)
                if gs:
                    if op in ('ret', 'br', 'switch', 'unreachable', 'phi'): g_close()
                    else: g_open()
                def setres(t, e):
                    declare(t, rn, r)
                    body.append('  %s = %s;' % (rn, e))
                if op in BINOPS:
                    chk = []
                    e = s.binop(op, I['ty'], s.val(I['ty'], I['a']), s.val(I['ty'], I['b']), chk, I.get('flags', ()))
                    for c in chk: body.append('  ' + c)
                    setres(I['ty'], e)
                elif op in FBINOPS:
                    c = {'fadd': '+', 'fsub': '-', 'fmul': '*', 'fdiv': '/'}.get(op)
                    if c is None: raise Unsupported(op)
                    setres(I['ty'], '(%s %s %s)' % (s.val(I['ty'], I['a']), c, s.val(I['ty'], I['b'])))
                elif op == 'fneg':
                    setres(I['ty'], '(-%s)' % s.val(I['ty'], I['a']))
                elif op == 'fcmp':
                    p_ = I['pred']; a = s.val(I['ty'], I['a']); b = s.val(I['ty'], I['b'])
                    cm = {'oeq': '==', 'ogt': '>', 'oge': '>=', 'olt': '<', 'ole': '<=', 'une': '!='}
                    if p_ in cm: e = '((unsigned char)(%s %s %s))' % (a, cm[p_], b)
                    elif p_ in ('ugt', 'uge', 'ult', 'ule'):
                        neg = {'ugt': '<=', 'uge': '<', 'ult': '>=', 'ule': '>'}[p_]
                        e = '((unsigned char)!(%s %s %s))' % (a, neg, b)
                    elif p_ == 'one': e = '((unsigned char)(%s < %s || %s > %s))' % (a, b, a, b)
                    elif p_ == 'ueq': e = '((unsigned char)!(%s < %s || %s > %s))' % (a, b, a, b)
                    elif p_ == 'ord': e = '((unsigned char)(%s == %s && %s == %s))' % (a, a, b, b)
                    elif p_ == 'uno': e = '((unsigned char)(%s != %s || %s != %s))' % (a, a, b, b)
                    elif p_ == 'true': e = '((unsigned char)1)'
                    elif p_ == 'false': e = '((unsigned char)0)'
                    else: raise Unsupported('fcmp ' + p_)
                    setres(IntTy(1), e)
                elif op == 'icmp':
                    setres(IntTy(1), s.icmp(I['pred'], I['ty'], s.val(I['ty'], I['a']), s.val(I['ty'], I['b'])))
                elif op == 'inttoptr' and is_i64(I['fty']) and has_shadow(I['a']):
                    setres(I['tty'], '((%s)%s)' % (s.cty(I['tty']), shadow(I['fty'], I['a'])))
                elif op in CASTS:
                    setres(I['tty'], s.cast(op, I['fty'], s.val(I['fty'], I['a']), I['tty']))
                    if op == 'ptrtoint' and r in S:
                        declare(VOIDP, rn + '_p', r); body.append('  %s_p = (unsigned char *)%s;' % (rn, s.val(I['fty'], I['a'])))
                elif op == 'freeze':
                    setres(I['ty'], s.val(I['ty'], I['a']))
                    if r in S: declare(VOIDP, rn + '_p', r); body.append('  %s_p = %s;' % (rn, shadow(I['ty'], I['a'])))
                elif op == 'select':
                    setres(I['a'][0], '(%s ? %s : %s)' % (s.val(*I['c']), s.val(*I['a']), s.val(*I['b'])))
                    if r in S: declare(VOIDP, rn + '_p', r); body.append('  %s_p = (%s ? %s : %s);' % (rn, s.val(*I['c']), shadow(*I['a']), shadow(*I['b'])))
                elif op == 'getelementptr':
                    setres(PtrTy(s.gep_result_ty(I['bty'], I['idx'])), s.gep(I['bty'], I['base'], I['idx']))
                elif op == 'load':
                    pe = s.val(*I['ptr'])
                    if I['atomic'] or s.fine_access(I): yld('atomic load' if I['atomic'] else 'plain load (fine-grained)')
                    if r in S:
                        declare(VOIDP, rn + '_p', r)
                        body.append('  %s_p = *(unsigned char **)%s;' % (rn, pe))
                        setres(I['ty'], '(uint64_t)(uintptr_t)%s_p' % rn)
                    else:
                        setres(I['ty'], '*%s' % pe)
                elif op == 'store':
                    pe = s.val(*I['ptr']); ve = s.val(*I['val'])
                    if I['atomic'] or s.fine_access(I): yld('atomic store' if I['atomic'] else 'plain store (fine-grained)')
                    if is_i64(I['val'][0]) and has_shadow(I['val'][1]):
                        body.append('  *(unsigned char **)%s = %s;' % (pe, shadow(*I['val'])))
                    else:
                        body.append('  *%s = %s;' % (pe, ve))
                elif op == 'cmpxchg':
                    t = I['cmp'][0]
                    lt = StructTy([t, IntTy(1)])
                    declare(lt, rn, r)
                    pe = s.val(*I['ptr'])
                    yld('cmpxchg')
                    if is_i64(t) and (r in S or has_shadow(I['new'][1])):
                        # pointer-carrying word: read and write the cell through a pointer-typed lvalue
                        declare(VOIDP, rn + '_p', r)
                        body.append('  %s_p = *(unsigned char **)%s; %s.f0 = (uint64_t)(uintptr_t)%s_p; %s.f1 = (%s.f0 == %s); if (%s.f1) *(unsigned char **)%s = %s;'
                                    % (rn, pe, rn, rn, rn, rn, s.val(*I['cmp']), rn, pe, shadow(*I['new'])))
                    else:
                        body.append('  %s.f0 = *%s; %s.f1 = (%s.f0 == %s); if (%s.f1) *%s = %s;'
                                    % (rn, pe, rn, rn, s.val(*I['cmp']), rn, pe, s.val(*I['new'])))
                elif op == 'atomicrmw':
                    t = I['val'][0]; pe = s.val(*I['ptr']); ve = s.val(*I['val'])
                    declare(t, rn, r)
                    k = I['rmw']
                    if k == 'xchg': new = ve
                    elif k in ('add', 'sub', 'and', 'or', 'xor'): new = s.binop(k, t, rn, ve)
                    elif k == 'nand': new = '(%s)~%s' % (s.cty(t), s.binop('and', t, rn, ve))
                    elif k in ('umax', 'umin', 'max', 'min'):
                        c = s.icmp({'umax': 'ugt', 'umin': 'ult', 'max': 'sgt', 'min': 'slt'}[k], t, rn, ve)
                        new = '(%s ? %s : %s)' % (c, rn, ve)
                    else: raise Unsupported('atomicrmw ' + k)
                    yld('atomicrmw ' + k)
                    if k == 'xchg' and is_i64(t) and (r in S or has_shadow(I['val'][1])):
                        declare(VOIDP, rn + '_p', r)
                        body.append('  %s_p = *(unsigned char **)%s; %s = (uint64_t)(uintptr_t)%s_p; *(unsigned char **)%s = %s;' % (rn, pe, rn, rn, pe, shadow(*I['val'])))
                    else:
                        body.append('  %s = *%s; *%s = %s;' % (rn, pe, pe, new))
                elif op == 'fence':
                    yld('fence')
                elif op == 'alloca':
                    t = I['ty']
                    if I['n'] is not None and I['n'][1] != ('int', 1):
                        if I['n'][1][0] != 'int': raise Unsupported('dynamic alloca')
                        t = ArrTy(I['n'][1][1], t)
                        declare(t, rn + '_mem'); declare(PtrTy(I['ty']), rn, r)
                        body.append('  %s = &%s_mem[0];' % (rn, rn))
                    else:
                        declare(t, rn + '_mem'); declare(PtrTy(t), rn, r)
                        body.append('  %s = &%s_mem;' % (rn, rn))
                elif op in ('call', 'invoke'):
                    s.emit_call(I, r, rn, declare, body, yld)
                    if op == 'invoke': body.append('  ' + jump(bn, I['normal']))
                elif op == 'ret':
                    if gs:
                        body.append('  if (MODE == 1) { PC = 0; %s} goto LEND;' % (('RETV = %s; ' % s.val(*I['val'])) if I['val'] else ''))
                    elif coro:
                        body.append('  PC = 0;')
                        body.append('  return %s;' % (s.val(*I['val']) if I['val'] else ''))
                    else:
                        body.append('  return %s;' % (s.val(*I['val']) if I['val'] else ''))
                elif op == 'br':
                    if 'dest' in I: body.append('  ' + jump(bn, I['dest']))
                    else:
                        body.append('  if (%s) { %s } else { %s }' % (s.val(*I['cond']), jump(bn, I['t']), jump(bn, I['f'])))
                elif op == 'switch':
                    c = s.val(*I['cond'])
                    for (cv, lb) in I['cases']:
                        body.append('  if (%s == %s) { %s }' % (c, s.val(*cv), jump(bn, lb)))
                    body.append('  ' + jump(bn, I['default']))
                elif op == 'phi':
                    declare(I['ty'], rn, r)
                    if r in S: declare(VOIDP, rn + '_p', r)
                elif op == 'extractvalue':
                    t = I['a'][0]; e = s.val(*I['a'])
                    for i in I['idx']:
                        rr = s.resolve(t)
                        if isinstance(rr, StructTy): e += '.f%d' % i; t = rr.els[i]
                        else: e += '[%d]' % i; t = rr.el
                    setres(t, e)
                    if r in S and idefs.get(I['a'][1][1], {}).get('op') == 'cmpxchg':
                        declare(VOIDP, rn + '_p', r); body.append('  %s_p = %s_p;' % (rn, s.fnames[I['a'][1][1]]))
                elif op == 'insertvalue':
                    t = I['a'][0]
                    declare(t, rn, r)
                    if I['a'][1][0] in ('undef', 'zero'):
                        body.append('  __builtin_memset(&%s, 0, sizeof(%s));' % (rn, rn))
                    else:
                        body.append('  %s = %s;' % (rn, s.val(*I['a'])))
                    e = rn; tt = t
                    for i in I['idx']:
                        rr = s.resolve(tt)
                        if isinstance(rr, StructTy): e += '.f%d' % i; tt = rr.els[i]
                        else: e += '[%d]' % i; tt = rr.el
                    body.append('  %s = %s;' % (e, s.val(*I['b'])))
                elif op == 'unreachable':
                    if gs: body.append('  if (MODE == 1) __verif_unreachable(); goto LEND;')
                    else: body.append('  __verif_unreachable();')
                else:
                    raise Unsupported(op)
        if prev_bn is not None: emit_latches(prev_bn)
        nlines = sum(len(b) for b in f.blocks.values())
        s.report['functions'].setdefault(raw_name, {'ir_insts': nlines, 'coroutine': coro, 'yield_points': 0})
        if coro: s.report['functions'][raw_name]['yield_points'] = len([x for x in resume if x[1].startswith('Y')])
        if not coro:
            ps = ', '.join(s.cty(t, s.fnames[n]) for (t, n) in f.params) or 'void'
            if f.va and f.params: ps += ', ...'
            hdr = s.cty(f.ret, '%s(%s)' % (s.cname(f.name), ps))
            return hdr + '\n{\n  ' + '\n  '.join(decls) + '\n' + '\n'.join(body) + '\n}\n'
        ps = ', '.join(s.cty(t, 'p_' + s.fnames[n]) for (t, n) in f.params) or 'void'
        hdr = s.cty(f.ret, '%s_T%d(%s)' % (s.cname(f.name), tid, ps))
        if not gs:
            sd = sdecls + ['static ' + s.cty(t, s.fnames[n]) + ';' for (t, n) in f.params] + ['static int PC;']
            if retdummy: sd.append('static ' + s.cty(f.ret, 'RETV') + ';')
            entry = '  if (PC == 0) { %s %s }\n' % (' '.join('%s = p_%s;' % (s.fnames[n], s.fnames[n]) for (t, n) in f.params),
                                                    ' '.join('%s = 0;' % c for c in sorted(set(spin_ctr.values()))))
            entry += ''.join('  else if (PC == %d) goto %s;\n' % (i, l) for (i, l) in resume)
            return hdr + '\n{\n  ' + '\n  '.join(sd + decls) + '\n' + entry + '\n'.join(body) + '\n}\n'
        g_close()
        sd = sdecls + ['static ' + s.cty(t, s.fnames[n]) + ';' for (t, n) in f.params] + ['static int PC;', 'int MODE;']
        if retdummy: sd.append('static ' + s.cty(f.ret, 'RETV') + ';')
        # MODE 1 = executing, 0 = walking (execution off) to the resume point PC, 2 = yielded in this call (execution off until LEND)
        entry = '  if (PC == 0) { MODE = 1; %s %s } else { MODE = 0; }\n' % (' '.join('%s = p_%s;' % (s.fnames[n], s.fnames[n]) for (t, n) in f.params),
                                                ' '.join('%s = 0;' % c for c in sorted(set(spin_ctr.values()))))
        tail = '\nLEND: ;\n  return%s;' % (' RETV' if retdummy else '')
        return hdr + '\n{\n  ' + '\n  '.join(sd + decls) + '\n' + entry + '\n'.join(body) + tail + '\n}\n'

    def alloc_cast_type(s, r):
        """struct type T if register r (an i8* returned by an allocation) is bitcast to T* in the current function"""
        for insts in s.cur_f.blocks.values():
            for I in insts:
                if I['op'] == 'bitcast' and I['a'] == ('reg', r) and isinstance(I['tty'], PtrTy):
                    t = I['tty'].to
                    if isinstance(t, (NamedTy, StructTy)) and isinstance(s.resolve(t), StructTy): return t
                    if isinstance(t, IntTy) and t.n in (32, 64): return t       # new uint64_t[const]: typed word array
        return None

    def cstring_of(s, v):
        """string literal behind an i8* constant operand (for __verif_assert messages)"""
        try:
            while v[0] == 'cexpr' and v[1] in ('gep', 'cast'):
                v = v[3][1]
            if v[0] == 'glob':
                g = s.m.globs[v[1]]
                if g.init and g.init[0] == 'cstr':
                    return g.init[1].rstrip(b'\0').decode('latin1')
        except Exception:
            pass
        return None

    def emit_call(s, I, r, rn, declare, body, yld):
        callee = I['callee']; rt = I['rty']
        if isinstance(rt, FnTy): rt = rt.ret          # `call <fnty> @f` form (varargs); a pointer-to-function type here is the RETURN type
        args = ['0' if isinstance(t, MetaTy) else s.val(t, v) for (t, v) in I['args']]
        def setres(e):
            if rn and not isinstance(rt, VoidTy):
                declare(rt, rn, r); body.append('  %s = %s;' % (rn, e))
            else:
                body.append('  %s;' % e)
        if callee[0] == 'asm':
            a = callee[1]; s.report['asm'].add(a)
            key = re.sub(r'\s+', ' ', a.replace('\\09', ' ').replace('\\0A', ' ')).strip('" ;')
            if key in ('', 'nop', 'rep; nop', 'pause', 'rep;nop', 'pause;'):
                body.append('  /* asm %s */;' % key); return
            if key == 'mfence':
                yld('mfence'); return
            mm = re.fullmatch(r'(bsr|bsf)(l|q) \$1, \$0 ?;? ?(jnz 1f ?; ?xor(l|q) \$0, ?\$0 ?; ?sub(l|q) \$\$1, ?\$0 ?; ?1: ?add(l|q) \$\$1, ?\$0 ?;?)?', key)
            if mm:
                fn = '__verif_%s%s%s' % (mm.group(1), mm.group(2), '_z' if mm.group(3) else '')
                setres('%s(%s)' % (fn, args[0])); return
            raise Unsupported('inline asm: ' + key)
        if callee[0] == 'glob':
            n = callee[1]
            g = s.m.globs.get(n)
            if g is not None and g.alias and g.init[0] == 'glob': n = g.init[1]
            raw = n[1:].strip('"')
            if raw.startswith('llvm.'):
                s.intrinsic(raw, I, r, rn, rt, args, declare, body, setres); return
            if raw == '__verif_assert':
                msg = s.cstring_of(I['args'][1][1]) or 'assertion'
                msg = re.sub(r'[^ -~]', '?', msg).replace('\\', '/').replace('"', "'")
                body.append('  __verif_assert(%s, "%s");' % (args[0], msg)); return
            if raw in PRELUDE_EXTERNALS:
                s.report['stubs_used'].add(raw)
                setres('%s(%s)' % (raw, ', '.join(args))); return
            if raw in BLOCKING:
                if BLOCKING[raw] is None: raise Unsupported('blocking call ' + raw)
                s.report['stubs_used'].add(raw)
                yld('blocking ' + raw)
                setres('%s(%s)' % (BLOCKING[raw], ', '.join(args))); return
            if raw in ATOMIC_LIBCALLS:
                s.report['stubs_used'].add(raw)
                yld('atomic libcall ' + raw)
                setres('%s(%s)' % (ATOMIC_LIBCALLS[raw], ', '.join(args))); return
            if s.abort_rx is not None and s.abort_rx.search(raw):
                s.report['stubs_used'].add(raw + ' (declared unreachable for this query: reaching it is a reported failure)')
                body.append('  __verif_abort_msg("call of a function this query declares unreachable: %s");' % raw[:60])
                if rn and not isinstance(rt, VoidTy): declare(rt, rn, r)
                return
            if raw in ('_Znwm', '_Znam', 'malloc') and I['args'] and I['args'][0][1][0] == 'int' and r:
                # typed allocation: the result is (bit)cast to a struct pointer of exactly that size -> malloc(sizeof(struct T)), so that cbmc
                # creates a field-sensitive typed object instead of a byte array (the size equality is checked by the C compiler)
                tt = s.alloc_cast_type(r)
                if tt is not None:
                    s.report['stubs_used'].add(raw)
                    declare(rt, rn, r)
                    N = I['args'][0][1][1]; T = s.cty(tt)
                    body.append('  _Static_assert(%d %% sizeof(%s) == 0 && %d >= sizeof(%s), "typed allocation size"); %s = (unsigned char *)(%d == sizeof(%s) ? malloc(sizeof(%s)) : malloc(sizeof(%s) * (%d / sizeof(%s)))); __verif_assume(%s != 0);'
                                % (N, T, N, T, rn, N, T, T, T, N, T, rn))
                    return
            st = None; found = False
            if raw in s.stubs: st = s.stubs[raw]; found = True
            else:
                for pat, st_ in s.stubs.items():
                    if pat.startswith('re:') and re.search(pat[3:], raw): st = st_; found = True; break
            if found:
                s.report['stubs_used'].add(raw)
                setres(st(args) if callable(st) else '%s(%s)' % (st, ', '.join(args))); return
            s.need(n)
            if s.tid is not None and n in s.yielders and s.atomic_rx is not None and s.atomic_rx.search(raw):
                yld('call of ' + raw[:40] + ' (executed without preemption)')
                body.append('  __verif_noyield++;')
                setres('%s(%s)' % (s.cname(n), ', '.join(args)))
                body.append('  __verif_noyield--;')
                s.report.setdefault('atomic_calls', []).append(raw)
            elif s.tid is not None and n in s.yielders:
                s.ny += 1; i = s.ny; s.coro_resume.append((i, 'C%d' % i))
                if not s.gs:
                    body.append('  C%d: ;' % i)
                    setres('%s_T%d(%s)' % (s.cname(n), s.tid, ', '.join(args)))
                    body.append('  if (__verif_yielding) { PC = %d; return%s; }' % (i, ' RETV' if s.coro_retdummy else ''))
                    return
                s.g_close()
                body.append('  if (MODE == 1 || (MODE == 0 && PC == %d)) {' % i)
                setres('%s_T%d(%s)' % (s.cname(n), s.tid, ', '.join(args)))
                body.append('  if (__verif_yielding) { PC = %d; MODE = 2; } else { MODE = 1; } }' % i)
            else:
                setres('%s(%s)' % (s.cname(n), ', '.join(args)))
        else:
            cands = I.get('_cands', []); ycands = I.get('_ycands', [])
            fp = s.val(None, callee)
            if s.tid is not None and ycands:
                s.ny += 1; i = s.ny; s.coro_resume.append((i, 'C%d' % i))
                if s.gs:
                    s.g_close()
                    body.append('  if (MODE == 1 || (MODE == 0 && PC == %d)) {' % i)
                else:
                    body.append('  C%d: ;' % i)
                first = True
                for n in cands:
                    if s.abort_rx is not None and s.abort_rx.search(n[1:].strip('"')):
                        s.clone_protos_needed = getattr(s, 'clone_protos_needed', set()); s.need(n)
                        body.append('  %sif ((void*)%s == (void*)%s) { __verif_abort_msg("call of a function this query declares unreachable: %s"); }' % ('' if first else 'else ', fp, s.cname(n), n[1:].strip('"')[:60])); first = False
                        s.report['stubs_used'].add(n[1:] + ' (declared unreachable for this query: reaching it is a reported failure)')
                        continue
                    s.need(n)
                    nm = '%s_T%d' % (s.cname(n), s.tid) if n in s.yielders else s.cname(n)
                    body.append('  %sif ((void*)%s == (void*)%s) {' % ('' if first else 'else ', fp, s.cname(n))); first = False
                    setres('%s(%s)' % (nm, ', '.join(args)))
                    body.append('  }')
                body.append('  else { __verif_assert(0, "indirect call target unknown"); __verif_assume(0); }')
                if s.gs: body.append('  if (__verif_yielding) { PC = %d; MODE = 2; } else { MODE = 1; } }' % i)
                else: body.append('  if (__verif_yielding) { PC = %d; return%s; }' % (i, ' RETV' if s.coro_retdummy else ''))
            else:
                for n in cands: s.need(n)
                fty = FnTy(rt, [t for (t, _) in I['args']], False)
                setres('((%s)%s)(%s)' % (s.cty(PtrTy(fty)), fp, ', '.join(args)))

    def intrinsic(s, raw, I, r, rn, rt, args, declare, body, setres):
        s.report['intrinsics'].add(raw)
        if raw.startswith(('llvm.lifetime', 'llvm.dbg', 'llvm.experimental.noalias', 'llvm.assume', 'llvm.invariant',
                           'llvm.prefetch', 'llvm.donothing', 'llvm.var.annotation')):
            return
        if raw.startswith(('llvm.memcpy', 'llvm.memmove')):
            body.append('  __verif_memmove(%s, %s, %s);' % (args[0], args[1], args[2])); return
        if raw.startswith('llvm.memset'):
            body.append('  __verif_memset(%s, %s, %s);' % (args[0], args[1], args[2])); return
        t = I['args'][0][0] if I['args'] else None
        if raw.startswith('llvm.expect'): setres(args[0]); return
        if raw.startswith(('llvm.ctlz', 'llvm.cttz', 'llvm.ctpop', 'llvm.bswap', 'llvm.bitreverse')):
            k = raw.split('.')[1]
            if t.n not in (8, 16, 32, 64): raise Unsupported(raw)
            setres('(%s)__verif_%s%d(%s)' % (s.cty(t), k, t.n, args[0])); return
        if raw.startswith(('llvm.umax', 'llvm.umin', 'llvm.smax', 'llvm.smin')):
            k = raw.split('.')[1]
            c = s.icmp({'umax': 'ugt', 'umin': 'ult', 'smax': 'sgt', 'smin': 'slt'}[k], t, args[0], args[1])
            setres('(%s ? %s : %s)' % (c, args[0], args[1])); return
        if raw.startswith('llvm.abs'):
            setres('(%s)(%s < 0 ? (%s)0 - %s : %s)' % (s.cty(t), s.sgn(t, args[0]), s.cty(t), args[0], args[0])); return
        if raw.startswith(('llvm.fshl', 'llvm.fshr')):
            k = raw.split('.')[1]
            if t.n not in (32, 64): raise Unsupported(raw)
            setres('__verif_%s%d(%s, %s, %s)' % (k, t.n, args[0], args[1], args[2])); return
        mm = re.match(r'llvm\.(u|s)(add|sub|mul)\.with\.overflow\.i(\d+)', raw)
        if mm and mm.group(1) == 'u':
            declare(rt, rn, r)
            n = int(mm.group(3))
            if n not in (32, 64): raise Unsupported(raw)
            wide = 'unsigned __int128' if n == 64 else 'uint64_t'
            c = {'add': '+', 'sub': '-', 'mul': '*'}[mm.group(2)]
            if mm.group(2) == 'sub':
                body.append('  %s.f0 = (%s)(%s - %s); %s.f1 = (%s < %s);' % (rn, s.cty(t), args[0], args[1], rn, args[0], args[1]))
            else:
                body.append('  { %s w_ = (%s)%s %s (%s)%s; %s.f0 = (%s)w_; %s.f1 = (w_ != (%s)%s.f0); }' %
                            (wide, wide, args[0], c, wide, args[1], rn, s.cty(t), rn, wide, rn))
            return
        if raw.startswith('llvm.trap'): body.append('  __verif_abort();'); return
        if raw.startswith(('llvm.stacksave',)): setres('0'); return
        if raw.startswith(('llvm.stackrestore',)): return
        if raw.startswith('llvm.objectsize'): setres('((uint64_t)-1)'); return
        if raw.startswith('llvm.is.constant'): setres('((unsigned char)0)'); return      # LLVM itself lowers an unresolved is.constant to false
        raise Unsupported('intrinsic ' + raw)

    # ---------------- driver
    def run(s):
        m = s.m
        s.reach = set(); s.work = []
        for r in s.roots:
            if '@' + r not in m.funcs: raise KeyError('root %s not in module' % r)
        # call graph + yield-capable fixpoint
        defined = set(n for n, f in m.funcs.items() if f.defined)
        direct = set(); calls = collections.defaultdict(set); icalls = collections.defaultdict(set)
        def alias_target(n):
            g = m.globs.get(n)
            if g is not None and g.alias and g.init[0] == 'glob': return g.init[1]
            return n
        for n, f in m.funcs.items():
            if not f.defined: continue
            for insts in f.blocks.values():
                for I in insts:
                    op = I['op']
                    if op in ('cmpxchg', 'atomicrmw', 'fence') or (op in ('load', 'store') and I['atomic']): direct.add(n)
                    if op in ('load', 'store') and s.coro and s.fine_rx is not None and s.fine_rx.search(n[1:].strip('"')): direct.add(n)
                    if op in ('call', 'invoke'):
                        c = I['callee']
                        if c[0] == 'glob':
                            tgt = alias_target(c[1]); raw = tgt[1:].strip('"')
                            if raw in BLOCKING or raw in ATOMIC_LIBCALLS: direct.add(n)
                            else: calls[n].add(tgt)
                        elif c[0] == 'asm':
                            if 'mfence' in c[1]: direct.add(n)
                        else:
                            rt = I['rty']
                            if isinstance(rt, FnTy): rt = rt.ret
                            icalls[n].add('%s(%s)' % (rt.key(), ','.join(t.key() for (t, _) in I['args'])))
        # address-taken functions: any function referenced other than as direct callee.  Conservative: all defined.
        s.bysig = collections.defaultdict(set)
        taken = s.address_taken()
        for n in taken:
            if n in defined: s.bysig[s.fnty_key(m.funcs[n])].add(n)
        s.yielders = set(direct) if s.coro else set()
        ch = s.coro
        while ch:
            ch = False
            for n in defined:
                if n in s.yielders: continue
                if any(c in s.yielders and not s.is_stubbed(c) for c in calls[n]) or any(s.bysig[k] & s.yielders for k in icalls[n]):
                    s.yielders.add(n); ch = True
        # functions executed inside non-preemptible calls (--atomic): their yield-capable members additionally get a plain, sequential
        # version under the canonical symbol, so that a pass such as basic_smr::scan costs what it costs in SEQ mode
        s.plain_needed = set()
        if s.coro and s.atomic_rx is not None:
            todo = [n for n in defined if s.atomic_rx.search(n[1:].strip('"'))]
            while todo:
                n = todo.pop()
                if n in s.plain_needed: continue
                s.plain_needed.add(n)
                for c in calls[n]:
                    if c in defined and c not in s.plain_needed: todo.append(c)
                for k in icalls[n]:
                    for c in s.bysig[k]:
                        if c in defined and c not in s.plain_needed: todo.append(c)
        # recursion among yielders is not supported
        if s.coro:
            color = {}
            def dfs(n, path):
                color[n] = 1
                for c in calls[n]:
                    if s.atomic_rx is not None and s.atomic_rx.search(c[1:].strip('"')): continue      # runs as plain sequential code (recursion allowed there)
                    if c in s.yielders and c in defined and not s.is_stubbed(c):
                        if color.get(c) == 1: raise Unsupported('recursion among yield-capable functions: %s -> %s' % (n, c))
                        if c not in color: dfs(c, path + [c])
                color[n] = 2
            for r in s.roots:
                if '@' + r in s.yielders and '@' + r not in color: dfs('@' + r, ['@' + r])
        for r in s.roots: s.need('@' + r)
        fn_c = collections.OrderedDict(); glob_order = []
        s.clone_protos = []
        tids = list(range(s.nthreads))
        while s.work:
            n = s.work.pop()
            if n in m.funcs:
                f = m.funcs[n]
                if f.defined:
                    if n in s.yielders:
                        fn_c[n] = ''.join(s.emit_fn(f, k) for k in tids)
                        ps = ', '.join(s.cty(t) for (t, _) in f.params) or 'void'
                        for k in tids: s.clone_protos.append(s.cty(f.ret, '%s_T%d(%s)' % (s.cname(n), k, ps)) + ';')
                        # canonical symbol (address identity for function pointers); never executed
                        if n in s.plain_needed:
                            fn_c[n] += s.emit_fn(f)        # plain version = the canonical symbol (used inside non-preemptible calls)
                        else:
                            s.clone_protos.append(s.cty(f.ret, '%s(%s)' % (s.cname(n), ', '.join(s.cty(t, 'a%d' % i) for i, (t, _) in enumerate(f.params)) or 'void'))
                                                  + ' { __verif_assert(0, "canonical yield-capable function called directly"); __verif_assume(0); }')
                    else: fn_c[n] = s.emit_fn(f)
                else: s.externs.add(n)
            elif n in m.globs:
                g = m.globs[n]
                if g.init is not None and not g.alias:
                    s.tid = None
                    s.fnames = {}
                    g.cinit = s.init(g.ty, g.init)
                glob_order.append(n)
            else:
                raise KeyError(n)
        # root wrappers R_Tk for non-yielding roots so that drivers are uniform
        wrappers = []
        if s.coro:
            for r in s.roots:
                n = '@' + r
                if n in s.yielders: continue
                f = m.funcs[n]
                ps = ', '.join(s.cty(t, 'a%d' % i) for i, (t, _) in enumerate(f.params)) or 'void'
                call = '%s(%s)' % (s.cname(n), ', '.join('a%d' % i for i in range(len(f.params))))
                for k in tids:
                    wrappers.append(s.cty(f.ret, '%s_T%d(%s)' % (s.cname(n), k, ps)) + ' { %s%s; }' % ('' if isinstance(f.ret, VoidTy) else 'return ', call))
        tail = []
        for n in fn_c:
            f = m.funcs[n]
            ps = ', '.join(s.cty(t) for (t, _) in f.params) or 'void'
            if f.va and f.params: ps += ', ...'
            tail.append(s.cty(f.ret, '%s(%s)' % (s.cname(n), ps)) + ';')
        tail += [p for p in s.clone_protos if p.endswith(';')]
        for n in sorted(s.externs):
            f = m.funcs[n]
            ps = ', '.join(s.cty(t) for (t, _) in f.params)
            if f.va: ps = (ps + ', ...') if ps else ''
            elif not ps: ps = 'void'
            if re.match(r'@_ZNK?St\d+(runtime_error|length_error|logic_error|out_of_range|invalid_argument|bad_alloc|exception)', n) and not f.va:
                # members of the std exception classes: only reachable on error paths that end in a throw; reaching one is reported
                ps2 = ', '.join(s.cty(t, 'a%d' % i) for i, (t, _) in enumerate(f.params)) or 'void'
                tail.append(s.cty(f.ret, '%s(%s)' % (s.cname(n), ps2)) + ' { __verif_assert(0, "error path: std exception object used"); __verif_assume(0); %s} /* EXTERNAL-STUB %s */'
                            % ('' if isinstance(f.ret, VoidTy) else 'return 0; ', n))
                s.report['stubs_used'].add(n[1:])
                continue
            tail.append('extern ' + s.cty(f.ret, '%s(%s)' % (s.cname(n), ps)) + '; /* EXTERNAL %s */' % n)
        for n in glob_order:
            g = m.globs[n]
            if g.alias: continue
            nm = s.cname(n) + ('[VERIF_NT]' if g.tls else '')
            if g.init is None: s.report['externals'].append(n)
            if g.init is None and re.match(r'@_ZT[VIS]', n):
                # vtable / typeinfo of a standard exception class: only referenced on paths that end in abort/throw (reported); dummy storage
                tail.append('%s; /* EXTERNAL (dummy storage) %s */' % (s.cty(g.ty, nm), n)); continue
            tail.append('%s;' % s.cty(g.ty, nm) if g.init is not None else 'extern %s; /* EXTERNAL */' % s.cty(g.ty, nm))
        for n in glob_order:
            g = m.globs[n]
            if g.alias or g.init is None: continue
            if g.tls: tail.append('%s = { %s };' % (s.cty(g.ty, s.cname(n) + '[VERIF_NT]'), ', '.join([g.cinit] * s.nthreads)))
            else: tail.append('%s = %s;' % (s.cty(g.ty, s.cname(n)), g.cinit))
        out = ['/* generated by ir2c.py -- do not edit */', '#define VERIF_NT %d' % s.nthreads, '#include "prelude.h"\n']
        for n in m.types: out.append('struct %s;' % s.tname(n))
        def struct_def(cn, t):
            if isinstance(t, OpaqueTy): return None
            fields = ' '.join(s.cty(e, 'f%d' % i) + ';' for i, e in enumerate(t.els)) or 'char dummy_;'
            return 'struct %s { %s }%s;' % (cn, fields, ' __attribute__((packed))' if t.packed else '')
        done = set(); order = []
        def deps(t):
            if isinstance(t, NamedTy): yield ('n', t.name)
            elif isinstance(t, StructTy):
                s.cty(t); yield ('l', t.key())
            elif isinstance(t, ArrTy): yield from deps(t.el)
        def visit(kind, key):
            if (kind, key) in done: return
            done.add((kind, key))
            if kind == 'n':
                t = m.types[key]; cn = s.tname(key)
            else:
                t, cn = s.lit[key]
            if isinstance(t, StructTy):
                for e in t.els:
                    for d in deps(e): visit(*d)
                sd = struct_def(cn, t)
                if sd: order.append(sd)
        for n in m.types: visit('n', n)
        k = 0
        while k < len(s.lit):
            visit('l', list(s.lit)[k]); k += 1
        out += order
        out += tail
        out += [p for p in s.clone_protos if not p.endswith(';')]
        out += list(fn_c.values())
        out += wrappers
        s.report['externals'] += sorted(s.externs)
        return '\n'.join(out) + '\n'

    def address_taken(s):
        """functions whose address escapes (appear as a value anywhere but in callee position)"""
        taken = set()
        m = s.m
        def walk(v):
            if isinstance(v, tuple):
                if len(v) == 2 and v[0] == 'glob' and isinstance(v[1], str):
                    if v[1] in m.funcs: taken.add(v[1])
                    else:
                        g = m.globs.get(v[1])
                        if g is not None and g.alias and g.init[0] == 'glob' and g.init[1] in m.funcs: taken.add(g.init[1])
                else:
                    for x in v: walk(x)
            elif isinstance(v, list):
                for x in v: walk(x)
        for g in m.globs.values():
            if g.init is not None and not g.alias: walk(g.init)
        for f in m.funcs.values():
            if not f.defined: continue
            for insts in f.blocks.values():
                for I in insts:
                    for k, v in I.items():
                        if k in ('res', 'op', 'line'): continue
                        if k == 'callee' and I['op'] in ('call', 'invoke'):
                            if v[0] == 'glob': continue
                        walk(v)
        return taken

def main():
    ap = argparse.ArgumentParser()
    ap.add_argument('inp'); ap.add_argument('out')
    ap.add_argument('--roots', required=True)
    ap.add_argument('--threads', type=int, default=1)
    ap.add_argument('--coro', action='store_true')
    ap.add_argument('--shift-check', action='store_true')
    ap.add_argument('--coro-style', default='guard', choices=['guard', 'goto'])
    ap.add_argument('--atomic')
    ap.add_argument('--abort-fn')
    ap.add_argument('--fine')
    ap.add_argument('--spin', action='append', default=[])
    ap.add_argument('--report')
    a = ap.parse_args()
    src = open(a.inp).read()
    m = parse_module(src)
    spin = []
    for sp in a.spin:
        rx, U = sp.rsplit('=', 1); spin.append((re.compile(rx), int(U)))
    e = Emit(m, a.roots.split(','), nthreads=a.threads, coro=a.coro, shift_check=a.shift_check, spin=spin, guard_style=(a.coro_style == 'guard'), atomic_rx=(re.compile(a.atomic) if a.atomic else None), abort_rx=(re.compile(a.abort_fn) if a.abort_fn else None), fine_rx=(re.compile(a.fine) if a.fine else None))
    try:
        c = e.run()
    except (Unsupported, SyntaxError, KeyError, TypeError, ValueError) as ex:
        print('ir2c: cannot translate: %s: %s' % (type(ex).__name__, ex), file=sys.stderr)
        sys.exit(2)
    open(a.out, 'w').write(c)
    rep = e.report
    for k in ('stubs_used', 'asm', 'intrinsics'): rep[k] = sorted(rep[k])
    rep['ir_lines'] = src.count('\n')
    if a.report: json.dump(rep, open(a.report, 'w'), indent=1)

if __name__ == '__main__':
    main()
