#!/usr/bin/env python3
"""LLVM-14 textual IR (typed pointers) parser used by ir2c.py."""
import re, sys, collections

TOK = re.compile(r'''
   (?P<ws>\s+)
 | (?P<comment>;[^\n]*)
 | (?P<cstr>c"(?:[^"\\]|\\[0-9A-Fa-f]{2}|\\\\)*")
 | (?P<str>"(?:[^"\\]|\\.)*")
 | (?P<lid>%(?:"(?:[^"\\]|\\.)*"|[-a-zA-Z$._0-9]+))
 | (?P<gid>@(?:"(?:[^"\\]|\\.)*"|[-a-zA-Z$._0-9]+))
 | (?P<md>![-a-zA-Z$._0-9]*)
 | (?P<attr>\#[0-9]+)
 | (?P<num>0x[0-9A-Fa-f]+|-?[0-9]+(?:\.[0-9]+(?:e[+-]?[0-9]+)?)?)
 | (?P<dots>\.\.\.)
 | (?P<word>[a-zA-Z_][a-zA-Z_0-9.]*)
 | (?P<punct>[*,()\[\]{}<>=:|])
''', re.X)

def tokenize(s):
    out = []
    pos = 0
    while pos < len(s):
        m = TOK.match(s, pos)
        if not m:
            raise SyntaxError("tok at %r" % s[pos:pos+40])
        pos = m.end()
        k = m.lastgroup
        if k in ('ws', 'comment'):
            continue
        out.append((k, m.group()))
    return out

# ---------------- types
class Ty:
    pass
class IntTy(Ty):
    def __init__(s, n): s.n = n
    def key(s): return 'i%d' % s.n
class VoidTy(Ty):
    def key(s): return 'void'
class FloatTy(Ty):
    def __init__(s, k): s.k = k
    def key(s): return s.k
class PtrTy(Ty):
    def __init__(s, to): s.to = to
    def key(s): return s.to.key() + '*'
class ArrTy(Ty):
    def __init__(s, n, el): s.n = n; s.el = el
    def key(s): return '[%d x %s]' % (s.n, s.el.key())
class StructTy(Ty):   # literal
    def __init__(s, els, packed=False): s.els = els; s.packed = packed
    def key(s): return ('<{%s}>' if s.packed else '{%s}') % ','.join(e.key() for e in s.els)
class NamedTy(Ty):
    def __init__(s, name): s.name = name
    def key(s): return s.name
class FnTy(Ty):
    def __init__(s, ret, params, va): s.ret = ret; s.params = params; s.va = va
    def key(s): return '%s(%s%s)' % (s.ret.key(), ','.join(p.key() for p in s.params), ',...' if s.va else '')
class OpaqueTy(Ty):
    def key(s): return 'opaque'
class MetaTy(Ty):
    def key(s): return 'metadata'

PARAM_ATTRS = set('''noundef nonnull nocapture readonly writeonly zeroext signext noalias returned immarg inreg
 nofree nest swiftself readnone'''.split())
PARAM_ATTRS_ARG = set('align dereferenceable dereferenceable_or_null sret byval byref inalloca preallocated elementtype'.split())

class P:
    """token cursor"""
    def __init__(s, toks): s.t = toks; s.i = 0
    def peek(s, o=0): return s.t[s.i+o] if s.i+o < len(s.t) else ('eof', '')
    def next(s): r = s.peek(); s.i += 1; return r
    def at(s, v): return s.peek()[1] == v
    def eat(s, v):
        if s.at(v): s.i += 1; return True
        return False
    def expect(s, v):
        if not s.eat(v): raise SyntaxError("expected %r got %r near %r" % (v, s.peek(), s.t[max(0,s.i-6):s.i+6]))
    def eof(s): return s.i >= len(s.t)

    def ty(s):
        k, v = s.next()
        if k == 'word' and re.fullmatch(r'i[0-9]+', v): t = IntTy(int(v[1:]))
        elif v == 'void': t = VoidTy()
        elif v in ('float', 'double', 'x86_fp80', 'half', 'fp128'): t = FloatTy(v)
        elif v == 'metadata': t = MetaTy()
        elif v == 'opaque': t = OpaqueTy()
        elif v == 'ptr': t = PtrTy(IntTy(8))
        elif k == 'lid': t = NamedTy(v)
        elif v == '[':
            n = int(s.next()[1]); s.expect('x'); el = s.ty(); s.expect(']'); t = ArrTy(n, el)
        elif v == '{':
            els = []
            if not s.at('}'):
                while True:
                    els.append(s.ty())
                    if not s.eat(','): break
            s.expect('}'); t = StructTy(els)
        elif v == '<':
            if s.at('{'):
                s.next(); els = []
                if not s.at('}'):
                    while True:
                        els.append(s.ty())
                        if not s.eat(','): break
                s.expect('}'); s.expect('>'); t = StructTy(els, True)
            else:
                raise SyntaxError('vector type unsupported')
        else:
            raise SyntaxError("type? %r %r" % (k, v))
        while True:
            if s.eat('*'): t = PtrTy(t)
            elif s.at('addrspace'):
                s.next(); s.expect('('); s.next(); s.expect(')')
            elif s.at('('):
                s.next(); ps = []; va = False
                if not s.at(')'):
                    while True:
                        if s.at('...'): s.next(); va = True; break
                        ps.append(s.ty()); s.skip_pattrs()
                        if not s.eat(','): break
                s.expect(')'); t = FnTy(t, ps, va)
            else: break
        return t

    def skip_pattrs(s):
        while True:
            k, v = s.peek()
            if k == 'word' and v in PARAM_ATTRS: s.next()
            elif k == 'word' and v in PARAM_ATTRS_ARG:
                s.next()
                if s.eat('('):
                    d = 1
                    while d:
                        kk, vv = s.next()
                        if vv == '(': d += 1
                        elif vv == ')': d -= 1
                else: s.next()
            else: break

# ---------------- values  (tuples)
# ('reg',name) ('glob',name) ('int',n) ('null',) ('undef',) ('zero',) ('cexpr',op,...) ('agg',[ (ty,val) ]) ('cstr',bytes)

CASTS = ('bitcast', 'ptrtoint', 'inttoptr', 'trunc', 'zext', 'sext', 'addrspacecast', 'uitofp', 'sitofp', 'fptoui', 'fptosi', 'fpext', 'fptrunc')
FBINOPS = ('fadd', 'fsub', 'fmul', 'fdiv', 'frem')
FMF = ('fast', 'nnan', 'ninf', 'nsz', 'arcp', 'contract', 'afn', 'reassoc')
BINOPS = ('add', 'sub', 'mul', 'udiv', 'sdiv', 'urem', 'srem', 'shl', 'lshr', 'ashr', 'and', 'or', 'xor')

def parse_value(p, ty):
    k, v = p.next()
    if k == 'lid': return ('reg', v)
    if k == 'gid': return ('glob', v)
    if k == 'num':
        if isinstance(ty, FloatTy):
            if v.startswith('0x'):
                import struct as _st
                return ('flt', repr(_st.unpack('>d', bytes.fromhex(v[2:].rjust(16, '0')))[0]))
            return ('flt', v)
        return ('int', int(v, 0))
    if v == 'true': return ('int', 1)
    if v == 'false': return ('int', 0)
    if v == 'null': return ('null',)
    if v in ('undef', 'poison'): return ('undef',)
    if v == 'zeroinitializer': return ('zero',)
    if k == 'cstr':
        raw = v[2:-1]; b = bytearray(); i = 0
        while i < len(raw):
            if raw[i] == '\\':
                if raw[i+1] == '\\': b.append(92); i += 2
                else: b.append(int(raw[i+1:i+3], 16)); i += 3
            else: b.append(ord(raw[i])); i += 1
        return ('cstr', bytes(b))
    if v in ('{', '[') or (v == '<' and p.at('{')):
        packed = False
        if v == '<': p.next(); packed = True; v = '{'
        close = '}' if v == '{' else ']'
        els = []
        if not p.at(close):
            while True:
                t = p.ty(); els.append((t, parse_value(p, t)))
                if not p.eat(','): break
        p.expect(close)
        if packed: p.expect('>')
        return ('agg', els)
    if v == 'getelementptr':
        p.eat('inbounds'); p.expect('(')
        bt = p.ty(); p.expect(',')
        pt = p.ty(); pv = parse_value(p, pt)
        idx = []
        while p.eat(','):
            p.eat('inrange')
            it = p.ty(); idx.append((it, parse_value(p, it)))
        p.expect(')')
        return ('cexpr', 'gep', bt, (pt, pv), idx)
    if v in CASTS:
        p.expect('('); ft = p.ty(); fv = parse_value(p, ft); p.expect('to'); tt = p.ty(); p.expect(')')
        return ('cexpr', 'cast', v, (ft, fv), tt)
    if v == 'icmp':
        pred = p.next()[1]; p.expect('(')
        t1 = p.ty(); v1 = parse_value(p, t1); p.expect(','); t2 = p.ty(); v2 = parse_value(p, t2); p.expect(')')
        return ('cexpr', 'icmp', pred, (t1, v1), (t2, v2))
    if v in BINOPS:
        while p.peek()[1] in ('nsw', 'nuw', 'exact'): p.next()
        p.expect('(')
        t1 = p.ty(); v1 = parse_value(p, t1); p.expect(','); t2 = p.ty(); v2 = parse_value(p, t2); p.expect(')')
        return ('cexpr', 'bin', v, (t1, v1), (t2, v2))
    if v == 'select':
        p.expect('(')
        a = []
        while True:
            t = p.ty(); a.append((t, parse_value(p, t)))
            if not p.eat(','): break
        p.expect(')')
        return ('cexpr', 'select', a)
    raise SyntaxError("value? %r %r" % (k, v))

# ---------------- module parse
class Func:
    def __init__(s): s.blocks = collections.OrderedDict(); s.params = []; s.name = None; s.ret = None; s.va = False; s.defined = False
class Glob:
    pass

class Module:
    def __init__(s):
        s.types = collections.OrderedDict()  # name -> Ty (struct) or OpaqueTy
        s.globs = collections.OrderedDict()
        s.funcs = collections.OrderedDict()

def split_top(text):
    """yield top-level entities as token lists; functions include body"""
    lines = text.split('\n')
    i = 0
    while i < len(lines):
        l = lines[i]
        if l.startswith('define'):
            j = i
            while lines[j] != '}': j += 1
            yield ('define', lines[i:j+1]); i = j+1
        else:
            if l.strip() and not l.startswith(';'):
                yield ('line', [l])
            i += 1

LINKAGE = set('''private internal available_externally linkonce weak common appending extern_weak linkonce_odr weak_odr external
 dso_local dso_preemptable default hidden protected dllimport dllexport unnamed_addr local_unnamed_addr
 fastcc ccc coldcc tailcc swiftcc noundef zeroext signext noalias nonnull'''.split())

def parse_fn_header(p, f):
    while True:
        k, v = p.peek()
        if k == 'word' and v in LINKAGE: p.next()
        elif k == 'word' and v in PARAM_ATTRS: p.next()
        elif k == 'word' and v in PARAM_ATTRS_ARG:
            p.skip_pattrs()
        else: break
    # return type: careful that function-type suffix would swallow the params: parse base type manually
    f.ret = parse_ret_ty(p)
    f.name = p.next()[1]
    p.expect('(')
    if not p.at(')'):
        while True:
            if p.at('...'): p.next(); f.va = True; break
            t = p.ty(); p.skip_pattrs()
            nm = None
            if p.peek()[0] == 'lid': nm = p.next()[1]
            f.params.append((t, nm))
            if not p.eat(','): break
    p.expect(')')

def parse_ret_ty(p):
    # type not followed by '(' param list belonging to the function itself. A return type that is a function pointer
    # looks like  `void (i8*)* @name`.  Try: parse type; if next token is gid -> fine. else backtrack w/o fn suffix.
    save = p.i
    t = p.ty()
    if p.peek()[0] == 'gid': return t
    p.i = save
    # parse non-function type: temporarily parse base and stars only
    k, v = p.peek()
    # simple approach: parse until gid
    depth = 0; j = p.i
    while not (p.t[j][0] == 'gid' and depth == 0):
        if p.t[j][1] in '([{<': depth += 1
        if p.t[j][1] in ')]}>': depth -= 1
        j += 1
    sub = P(p.t[p.i:j]); t = sub.ty(); p.i = j
    return t

def parse_module(text):
    m = Module()
    for kind, lines in split_top(text):
        if kind == 'line':
            l = lines[0]
            if l.startswith(('source_filename', 'target ', 'attributes ', '!', '$', 'module asm')): continue
            toks = tokenize(l); p = P(toks)
            k, v = p.peek()
            if k == 'lid' and p.peek(1)[1] == '=' and p.peek(2)[1] == 'type':
                p.next(); p.next(); p.next()
                m.types[v] = p.ty()
            elif k == 'gid':
                g = Glob(); g.name = v; p.next(); p.expect('=')
                g.tls = False; g.const = False; g.init = None; g.extern = False; g.alias = None
                while True:
                    kk, vv = p.peek()
                    if vv in ('external', 'extern_weak'): g.extern = True; p.next()
                    elif vv == 'thread_local':
                        g.tls = True; p.next()
                        if p.eat('('): p.next(); p.expect(')')
                    elif kk == 'word' and vv in LINKAGE: p.next()
                    elif vv in ('global', 'constant'): g.const = (vv == 'constant'); p.next(); break
                    elif vv in ('alias', 'ifunc'): g.alias = True; p.next(); break
                    else: raise SyntaxError('global? ' + l)
                g.ty = p.ty()
                if g.alias:
                    p.expect(','); t = p.ty(); g.init = parse_value(p, t)
                elif not g.extern and not p.at(',') and not p.eof():
                    g.init = parse_value(p, g.ty)
                m.globs[v] = g
            elif v == 'declare':
                p.next(); f = Func(); parse_fn_header(p, f); m.funcs[f.name] = f
            else:
                raise SyntaxError('top? ' + l)
        else:
            f = Func(); f.defined = True
            hdr = tokenize(lines[0]); p = P(hdr); p.expect('define'); parse_fn_header(p, f)
            cur = None
            # entry block label = next unnamed number = number of unnamed params... compute: count of params w/ numeric names
            nunnamed = sum(1 for (_, n) in f.params if n is None or re.fullmatch(r'%[0-9]+', n))
            # give unnamed params names
            k = 0
            newp = []
            for (t, n) in f.params:
                if n is None: n = '%%%d' % k
                if re.fullmatch(r'%[0-9]+', n): k = int(n[1:]) + 1
                newp.append((t, n))
            f.params = newp
            cur = '%%%d' % k
            f.blocks[cur] = []
            # a switch spans several lines: "switch ... [" / "  i32 1, label %x" ... / "]"
            joined = []; acc = None
            for l in lines[1:-1]:
                if acc is not None:
                    acc += ' ' + l.strip()
                    if l.strip().startswith(']'): joined.append(acc); acc = None
                    continue
                if re.match(r'^\s+switch\s', l) and l.rstrip().endswith('['): acc = l.rstrip(); continue
                if re.match(r'^\s+to label ', l) and joined: joined[-1] = joined[-1].rstrip() + ' ' + l.strip(); continue   # invoke ... / to label %a unwind label %b
                joined.append(l)
            for l in joined:
                if not l.strip() or l.lstrip().startswith(';'): continue
                mm = re.match(r'^([-a-zA-Z$._0-9]+|"[^"]*"):', l)
                if mm and not l.startswith(' '):
                    cur = '%' + mm.group(1); f.blocks[cur] = []; continue
                f.blocks[cur].append(parse_inst(P(tokenize(l)), l))
            m.funcs[f.name] = f
    return m

def tv(p):
    t = p.ty(); p.skip_pattrs(); return (t, parse_value(p, t))

def skip_md(p):
    # trailing ", !tbaa !5, align 8" etc
    pass

def parse_inst(p, line):
    res = None
    if p.peek()[0] == 'lid' and p.peek(1)[1] == '=':
        res = p.next()[1]; p.next()
    k, op = p.next()
    I = {'res': res, 'op': op, 'line': line}
    if op in ('tail', 'musttail', 'notail'):
        k, op = p.next(); I['op'] = op
    if op in BINOPS:
        fl = set()
        while p.peek()[1] in ('nsw', 'nuw', 'exact'): fl.add(p.next()[1])
        t = p.ty(); a = parse_value(p, t); p.expect(','); b = parse_value(p, t)
        I.update(ty=t, a=a, b=b, flags=fl)
    elif op in FBINOPS:
        while p.peek()[1] in FMF: p.next()
        t = p.ty(); a = parse_value(p, t); p.expect(','); b = parse_value(p, t)
        I.update(ty=t, a=a, b=b)
    elif op == 'fneg':
        while p.peek()[1] in FMF: p.next()
        t = p.ty(); I.update(ty=t, a=parse_value(p, t))
    elif op == 'fcmp':
        while p.peek()[1] in FMF: p.next()
        I['pred'] = p.next()[1]; t = p.ty(); a = parse_value(p, t); p.expect(','); b = parse_value(p, t)
        I.update(ty=t, a=a, b=b)
    elif op == 'icmp':
        I['pred'] = p.next()[1]; t = p.ty(); a = parse_value(p, t); p.expect(','); b = parse_value(p, t)
        I.update(ty=t, a=a, b=b)
    elif op in CASTS:
        ft = p.ty(); a = parse_value(p, ft); p.expect('to'); tt = p.ty(); I.update(fty=ft, a=a, tty=tt)
    elif op == 'freeze':
        t = p.ty(); I.update(ty=t, a=parse_value(p, t))
    elif op == 'select':
        c = tv(p); p.expect(','); a = tv(p); p.expect(','); b = tv(p); I.update(c=c, a=a, b=b)
    elif op == 'getelementptr':
        p.eat('inbounds'); bt = p.ty(); p.expect(','); base = tv(p); idx = []
        while p.eat(','):
            if p.peek()[0] == 'md': break
            idx.append(tv(p))
        I.update(bty=bt, base=base, idx=idx)
    elif op == 'load':
        I['atomic'] = p.eat('atomic'); I['volatile'] = p.eat('volatile')
        t = p.ty(); p.expect(','); ptr = tv(p); I.update(ty=t, ptr=ptr)
    elif op == 'store':
        I['atomic'] = p.eat('atomic'); I['volatile'] = p.eat('volatile')
        val = tv(p); p.expect(','); ptr = tv(p); I.update(val=val, ptr=ptr)
    elif op == 'cmpxchg':
        p.eat('weak'); p.eat('volatile'); ptr = tv(p); p.expect(','); cmp_ = tv(p); p.expect(','); new = tv(p)
        I.update(ptr=ptr, cmp=cmp_, new=new)
    elif op == 'atomicrmw':
        p.eat('volatile'); I['rmw'] = p.next()[1]; ptr = tv(p); p.expect(','); val = tv(p); I.update(ptr=ptr, val=val)
    elif op == 'fence':
        pass
    elif op in ('landingpad', 'resume', 'indirectbr', 'callbr', 'catchswitch', 'cleanuppad', 'va_arg',
                'extractelement', 'insertelement', 'shufflevector'):
        raise SyntaxError('unsupported instruction (exceptions/vectors are outside the translator): ' + line)
    elif op == 'alloca':
        t = p.ty(); n = None
        if p.eat(','):
            if p.peek()[1] != 'align': n = tv(p)
        I.update(ty=t, n=n)
    elif op in ('call', 'invoke'):
        while p.peek()[0] == 'word' and p.peek()[1] in LINKAGE | PARAM_ATTRS: p.next()
        p.skip_pattrs()
        while p.peek()[0] == 'word' and p.peek()[1] in LINKAGE | PARAM_ATTRS: p.next()
        rt = p.ty()  # may be a function type / fn pointer type for varargs
        if p.at('asm'):
            p.next()
            while p.peek()[1] in ('sideeffect', 'alignstack', 'inteldialect', 'unwind'): p.next()
            a = p.next()[1]; p.expect(','); c = p.next()[1]
            callee = ('asm', a, c)
        else:
            callee = parse_value(p, None)
        p.expect('(')
        args = []
        if not p.at(')'):
            while True:
                t = p.ty(); p.skip_pattrs()
                if isinstance(t, MetaTy):
                    # metadata arg: skip tokens until , or ) at depth 0
                    d = 0
                    while not (d == 0 and p.peek()[1] in (',', ')')):
                        vv = p.next()[1]
                        if vv in '({': d += 1
                        if vv in ')}': d -= 1
                    args.append((t, ('undef',)))
                else:
                    args.append((t, parse_value(p, t)))
                if not p.eat(','): break
        p.expect(')')
        I.update(rty=rt, callee=callee, args=args)
        if op == 'invoke':
            while not p.at('to'): p.next()
            p.next(); p.expect('label'); I['normal'] = p.next()[1]
    elif op == 'ret':
        t = p.ty()
        I['val'] = None if isinstance(t, VoidTy) else (t, parse_value(p, t))
    elif op == 'br':
        if p.at('label'): p.next(); I['dest'] = p.next()[1]
        else:
            c = tv(p); p.expect(','); p.expect('label'); a = p.next()[1]; p.expect(','); p.expect('label'); b = p.next()[1]
            I.update(cond=c, t=a, f=b)
    elif op == 'switch':
        c = tv(p); p.expect(','); p.expect('label'); d = p.next()[1]; p.expect('['); cases = []
        while not p.at(']'):
            cv = tv(p); p.expect(','); p.expect('label'); cases.append((cv, p.next()[1]))
        I.update(cond=c, default=d, cases=cases)
    elif op == 'phi':
        t = p.ty(); inc = []
        while True:
            p.expect('['); v = parse_value(p, t); p.expect(','); b = p.next()[1]; p.expect(']'); inc.append((v, b))
            if not p.eat(','): break
        I.update(ty=t, inc=inc)
    elif op == 'extractvalue':
        a = tv(p); idx = []
        while p.eat(','): idx.append(int(p.next()[1]))
        I.update(a=a, idx=idx)
    elif op == 'insertvalue':
        a = tv(p); p.expect(','); b = tv(p); idx = []
        while p.eat(','): idx.append(int(p.next()[1]))
        I.update(a=a, b=b, idx=idx)
    elif op == 'unreachable':
        pass
    else:
        raise SyntaxError('inst? ' + line)
    return I

# ---------------- C emission
