/* Native run-time shared by (b) the gcc build of the generated C and (c) the g++ build of the real wrappers.
 * Both consume the same stream of "nondeterministic" 64-bit values, in the same order, and print the same
 * observation log; translation validation = the two logs are identical; replay = stream taken from a cbmc trace.
 *   VERIF_REPLAY=<file>  one value per line (decimal); exhausted stream yields 0
 *   VERIF_SEED=<n>       xorshift stream, biased towards small values
 * Log protocol (stdout): "OBS <hex>", "ASSERT-FAIL <msg>", last line "END ok|pruned|fail".                    */
#ifndef VERIF_RT_COMMON_H
#define VERIF_RT_COMMON_H
#include <stdint.h>
#include <stdio.h>
#include <stdlib.h>
#include <string.h>
#ifdef __cplusplus
extern "C" {
#endif
static uint64_t __verif_rt_state;
static FILE *__verif_rt_replay, *__verif_rt_record;
static int __verif_rt_inited, __verif_rt_failed;
static unsigned __verif_rt_yield_den = 4;

static inline void __verif_rt_init(void) {
  if (__verif_rt_inited) return;
  __verif_rt_inited = 1;
  const char *r = getenv("VERIF_REPLAY");
  if (r && *r) { __verif_rt_replay = fopen(r, "r"); if (!__verif_rt_replay) { perror(r); exit(3); } }
  const char *rec = getenv("VERIF_RECORD");
  if (rec && *rec) { __verif_rt_record = fopen(rec, "w"); if (!__verif_rt_record) { perror(rec); exit(3); } }
  const char *s = getenv("VERIF_SEED");
  __verif_rt_state = 0x9E3779B97F4A7C15ULL ^ (s ? strtoull(s, 0, 0) * 0xBF58476D1CE4E5B9ULL : 0);
  if (!__verif_rt_state) __verif_rt_state = 1;
  const char *y = getenv("VERIF_YIELD_DEN");
  if (y) __verif_rt_yield_den = (unsigned)atoi(y);
}
static inline uint64_t __verif_rt_next(void) {
  uint64_t x = __verif_rt_state; x ^= x >> 12; x ^= x << 25; x ^= x >> 27; __verif_rt_state = x;
  return x * 0x2545F4914F6CDD1DULL;
}
static inline int __verif_rt_from_file(uint64_t *v) {
  if (!__verif_rt_replay) return 0;
  char buf[64];
  if (!fgets(buf, sizeof buf, __verif_rt_replay)) { *v = 0; return 1; }
  *v = strtoull(buf, 0, 0); return 1;
}
static inline uint64_t __verif_rt_rec(uint64_t v) { if (__verif_rt_record) { fprintf(__verif_rt_record, "%llu\n", (unsigned long long)v); fflush(__verif_rt_record); } return v; }
static inline void __verif_rt_end(const char *how) { printf("END %s\n", how); fflush(stdout); _Exit(strcmp(how, "fail") == 0 ? 1 : 0); }
static inline void __verif_rt_pruned(void) { __verif_rt_end(__verif_rt_failed ? "fail" : "pruned"); }
static inline void __verif_rt_assert_fail(const char *msg) { if (!strncmp(msg, "VERIF-WITNESS", 13)) { printf("WITNESS\n"); return; } printf("ASSERT-FAIL %s\n", msg); __verif_rt_failed = 1; }
static inline void __verif_rt_observe(uint64_t v) { printf("OBS %llx\n", (unsigned long long)v); }
static inline uint64_t __verif_rt_nd64(void) {
  uint64_t v; __verif_rt_init();
  if (__verif_rt_from_file(&v)) return __verif_rt_rec(v);
  uint64_t r = __verif_rt_next();
  switch (r & 3) { case 0: return __verif_rt_rec(__verif_rt_next() & 3); case 1: return __verif_rt_rec(__verif_rt_next() & 0xff); case 2: return __verif_rt_rec((uint64_t)0 - (__verif_rt_next() & 3)); default: return __verif_rt_rec(__verif_rt_next()); }
}
static inline uint64_t __verif_rt_range(uint64_t lo, uint64_t hi) {
  uint64_t v; __verif_rt_init();
  if (__verif_rt_from_file(&v)) { if (!(lo <= v && v <= hi)) __verif_rt_pruned(); return __verif_rt_rec(v); }
  if (hi < lo) __verif_rt_pruned();
  if (hi - lo == UINT64_MAX) return __verif_rt_rec(__verif_rt_next());
  return __verif_rt_rec(lo + __verif_rt_next() % (hi - lo + 1));
}
static inline int __verif_rt_yield(void) {
  uint64_t v; __verif_rt_init();
  if (__verif_rt_from_file(&v)) return (int)(__verif_rt_rec(v) & 1);
  return (int)__verif_rt_rec(__verif_rt_yield_den ? (__verif_rt_next() % __verif_rt_yield_den) == 0 : 0);
}
#ifdef __cplusplus
}
#endif
#endif
