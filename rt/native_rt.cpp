// Native run-time for the g++ build of a harness (the *real* libcds code, no translation).
//   - implements the harness API of harness/verif.h on top of rt_common.h (same value stream, same log as the
//     gcc build of the generated C)
//   - mirrors ir2c/driver.c: SEQ (h_main) or CORO (h_setup / h_init / h_thread1..T / h_fini / h_check)
//   - harness threads are real std::threads (so thread_local state is real), serialised by a baton; with the
//     KHIZMAX_LIBCDS_VERIF hook compiled into libcds every atomic operation calls verif_sched_point(), which
//     consumes one yield decision from the stream exactly like __verif_yield() in the generated C.
#include "rt_common.h"
#include "verif.h"
#include <thread>
#include <mutex>
#include <condition_variable>
#include <functional>
#include <vector>

extern "C" {
    uint8_t  nondet_u8()  { return (uint8_t)__verif_rt_nd64(); }
    uint16_t nondet_u16() { return (uint16_t)__verif_rt_nd64(); }
    uint32_t nondet_u32() { return (uint32_t)__verif_rt_nd64(); }
    uint64_t nondet_u64() { return __verif_rt_nd64(); }
    bool     nondet_bool() { return (__verif_rt_nd64() & 1) != 0; }
    uint64_t nondet_range( uint64_t lo, uint64_t hi ) { return __verif_rt_range( lo, hi ); }
    void     __verif_assume( bool c ) { if ( !c ) __verif_rt_pruned(); }
    void     __verif_assert( bool c, const char* msg ) { if ( !c ) __verif_rt_assert_fail( msg ); }
    void     __verif_observe( uint64_t v ) { __verif_rt_observe( v ); }
    static uint64_t s_clk;
    uint64_t __verif_clock() { return s_clk++; }
}

namespace {
    struct worker {
        std::thread th;
        std::function<void()> job;
        bool has_job = false, running = false, done = false, quit = false;
    };
    std::mutex g_m;
    std::condition_variable g_cv;
    std::vector<worker*> g_w;
    int g_current = 0;                 // who holds the baton (0 = main)
    bool g_noyield = true;
    bool g_yielded = false;
    thread_local int t_tid = 0;

    void worker_main( int k ) {
        t_tid = k;
        std::unique_lock<std::mutex> lk( g_m );
        worker& w = *g_w[k];
        for ( ;; ) {
            g_cv.wait( lk, [&] { return ( w.has_job && g_current == k ) || w.quit; } );
            if ( w.quit ) return;
            w.has_job = false; w.running = true;
            lk.unlock();
            w.job();
            lk.lock();
            w.running = false; w.done = true;
            g_current = 0;
            g_cv.notify_all();
        }
    }
    void ensure_worker( int k ) {
        while ( (int)g_w.size() <= k ) g_w.push_back( nullptr );
        if ( !g_w[k] ) { g_w[k] = new worker; g_w[k]->th = std::thread( worker_main, k ); }
    }
    // give the baton to worker k: start job (if fresh) or resume it; returns when it finished or yielded
    // returns true if the job finished
    bool run_on( int k, std::function<void()> job, bool fresh ) {
        ensure_worker( k );
        std::unique_lock<std::mutex> lk( g_m );
        worker& w = *g_w[k];
        if ( fresh ) { w.job = std::move( job ); w.has_job = true; w.done = false; }
        g_yielded = false;
        g_current = k;
        g_cv.notify_all();
        g_cv.wait( lk, [&] { return g_current == 0; } );
        return w.done;
    }
    void shutdown() {
        {
            std::unique_lock<std::mutex> lk( g_m );
            for ( auto w : g_w ) if ( w ) w->quit = true;
            g_cv.notify_all();
        }
        for ( auto w : g_w ) if ( w ) w->th.join();
    }
}

extern "C" uint32_t __verif_tid_get() { return (uint32_t)t_tid; }
extern "C" void __verif_run_as( uint32_t t, void (*fn)(void*), void* arg ) {
    if ( (int)t == t_tid ) { fn( arg ); return; }
    if ( t_tid != 0 ) { fprintf( stderr, "__verif_run_as from a non-main identity\n" ); _Exit( 3 ); }
    if ( t == 0 ) { fn( arg ); return; }
    run_on( (int)t, [=] { fn( arg ); }, true );
}

// called by the instrumented atomics (cds/details/verif_atomic.h) before every atomic operation
extern "C" void verif_sched_point() {
    if ( g_noyield || t_tid == 0 ) return;
    if ( !__verif_rt_yield() ) return;
    std::unique_lock<std::mutex> lk( g_m );
    int me = t_tid;
    g_yielded = true;
    g_current = 0;
    g_cv.notify_all();
    g_cv.wait( lk, [&] { return g_current == me; } );
}

extern "C" {
#ifdef VERIF_SEQ
    void h_main();
#else
    void h_setup(); void h_check();
    void h_thread1(); void h_thread2();
#if VERIF_T >= 3
    void h_thread3();
#endif
#if VERIF_T >= 4
    void h_thread4();
#endif
#ifdef HAVE_INIT
    void h_init();
#endif
#ifdef HAVE_FINI
    void h_fini();
#endif
#endif
}

int main() {
    __verif_rt_init();
#ifdef VERIF_SEQ
    h_main();
    __verif_rt_assert_fail( "VERIF-WITNESS end of harness reachable" );
#else
    h_setup();
    const int T = VERIF_T;
#ifdef HAVE_INIT
    for ( int k = 1; k <= T; ++k ) run_on( k, [] { h_init(); }, true );
#endif
    g_noyield = false;
    bool fin[VERIF_T + 1] = { false }; bool started[VERIF_T + 1] = { false };
    unsigned last = 0, nfin = 0;
    void (*body[5])() = { nullptr, h_thread1, h_thread2,
#if VERIF_T >= 3
        h_thread3,
#else
        nullptr,
#endif
#if VERIF_T >= 4
        h_thread4
#else
        nullptr
#endif
    };
#if VERIF_T == 2 && !defined(VERIF_PICK_DRIVER)
    // mirrors the two-thread driver of ir2c/driver.c:  [T1] T2 T1 T2 ...
    bool skip_first = nondet_bool();
    (void) last;
    for ( int seg = 0; seg < VERIF_K + 1; ++seg ) {
        if ( nfin == (unsigned)T ) break;
        if ( seg == 0 && skip_first ) continue;
        unsigned pick = ( seg & 1 ) == 0 ? 1 : 2;
        if ( fin[pick] ) continue;
        void (*b)() = body[pick];
        bool done = run_on( (int)pick, [b] { b(); }, !started[pick] );
        started[pick] = true;
        if ( done ) { fin[pick] = true; ++nfin; }
    }
#else
    for ( int seg = 0; seg < VERIF_K; ++seg ) {
        if ( nfin == (unsigned)T ) break;
        unsigned pick = (unsigned)__verif_rt_range( 1, T );
        if ( fin[pick] ) __verif_rt_pruned();
        if ( pick == last ) __verif_rt_pruned();
        void (*b)() = body[pick];
        bool done = run_on( (int)pick, [b] { b(); }, !started[pick] );
        started[pick] = true;
        if ( done ) { fin[pick] = true; ++nfin; last = 0; } else last = pick;
    }
#endif
    if ( nfin != (unsigned)T ) __verif_rt_pruned();
    g_noyield = true;
#ifdef HAVE_FINI
    for ( int k = 1; k <= T; ++k ) run_on( k, [] { h_fini(); }, true );
#endif
    h_check();
    __verif_rt_assert_fail( "VERIF-WITNESS end of harness reachable" );
#endif
    fflush( stdout );
    shutdown();
    __verif_rt_end( __verif_rt_failed ? "fail" : "ok" );
    return 0;
}
