#!/usr/bin/env python3
"""run_check.py <property id> <quick|thorough> [--only <query regex>] [--keep] [--jobs N]
exit 0: property held on everything explored (KNOWN-FINDING lines allowed)
exit 1: VIOLATION property=<id> replay=<path>
exit 2: the check could not be carried out (timeout, bound too small, translation mismatch, vacuous harness...)"""
import os, sys, json, time, re, shutil, argparse, tempfile, traceback
from concurrent.futures import ThreadPoolExecutor, as_completed
sys.path.insert(0, os.path.dirname(os.path.abspath(__file__)))
import engine
from engine import Query, Broken
import checks

VERIF = engine.VERIF

def load_known():
    """lines:  open: property=C27 query=<regex> match=<regex over failed assertion text> :: description
               fixed: property=C01 <commit> <what failed>            (informational, suppresses nothing)"""
    out = []
    p = os.path.join(VERIF, 'known_findings.txt')
    if not os.path.exists(p): return out
    for l in open(p):
        l = l.strip()
        if not l.startswith('open:'): continue
        m = re.match(r'open:\s+property=(\S+)\s+query=(\S+)\s+match=(.+?)\s+::\s+(.*)$', l)
        if m: out.append({'property': m.group(1), 'query': re.compile(m.group(2)), 'match': re.compile(m.group(3)), 'text': m.group(4)})
    return out

def hook_available():
    return os.path.exists(os.path.join(engine.REPO, 'cds', 'details', 'verif_atomic.h'))

def main():
    ap = argparse.ArgumentParser()
    ap.add_argument('prop'); ap.add_argument('tier', choices=['quick', 'thorough', 'dbg'])
    ap.add_argument('--only'); ap.add_argument('--keep', action='store_true'); ap.add_argument('--jobs', type=int, default=int(os.environ.get('VERIF_JOBS', '8')))
    ap.add_argument('--no-evidence', action='store_true'); ap.add_argument('--replay')
    a = ap.parse_args()
    seed = int(os.environ.get('VERIF_SEED', '1') or 1)
    t0 = time.time()
    if a.replay: return replay(a)
    pid = a.prop
    spec = checks.CHECKS[pid]
    qs = [q for q in spec['queries'] if a.tier in q.tiers]
    if a.only: qs = [q for q in qs if re.search(a.only, q.name)]
    if not qs: print('no queries'); return 2
    scratch_root = os.environ.get('VERIF_SCRATCH') or tempfile.mkdtemp(prefix='verif.%s.' % pid, dir='/var/tmp')
    os.makedirs(scratch_root, exist_ok=True)
    known = [k for k in load_known() if k['property'] == pid]
    hook = hook_available()
    results = []; broken = []; violations = []; known_hits = []
    def work(q):
        try:
            isk = lambda desc, q=q: any(k['query'].search(q.name) and k['match'].search(desc) for k in known)
            return q, engine.run_query(q, a.tier, seed, scratch_root, hook_available=hook, keep=a.keep, is_known=isk), None
        except Broken as e:
            return q, None, str(e)
        except Exception as e:
            return q, None, 'internal error: ' + traceback.format_exc()
    with ThreadPoolExecutor(max_workers=a.jobs) as ex:
        futs = [ex.submit(work, q) for q in qs]
        for f in as_completed(futs):
            q, R, err = f.result()
            if err:
                broken.append({'query': q.name, 'error': err}); print('BROKEN %s: %s' % (q.name, err[:1500]), flush=True); continue
            results.append(R)
            line = '%-40s %-14s build %.1fs cbmc %.1fs' % (q.name, R['status'], R.get('t_build_s', 0), R.get('t_cbmc_s', 0))
            print(line, flush=True)
            tvf = R.get('translation_validation', {}).get('ended', {}).get('fail', 0)
            if tvf:
                print('  note: %d validation run(s) of the real code ended with a failed harness assertion' % tvf)
            if R['status'] == 'counterexample':
                for ce in R['counterexamples']:
                    k = next((k for k in known if k['query'].search(q.name) and k['match'].search(ce['desc'])), None)
                    if k:
                        known_hits.append((q.name, ce, k)); continue
                    if ce.get('reproduced_on_real_code'):
                        violations.append((q.name, ce))
                    elif ce['id'].split('.')[-2] in ('pointer_dereference', 'array_bounds', 'overflow', 'undefined-shift', 'division-by-zero') or 'shift distance' in ce['desc']:
                        # solver-only undefined behaviour that the native run cannot observe: report separately
                        violations.append((q.name, dict(ce, solver_only_ub=True)))
                    else:
                        broken.append({'query': q.name, 'error': 'counterexample for "%s" did not reproduce on the real code (encoding or stub wrong?) stream=%s' % (ce['desc'], ce['stream_file'])})
                        print('BROKEN %s: unreproduced counterexample %s' % (q.name, ce['desc']), flush=True)
    # persist counterexample streams under /verif/evidence/replay
    rdir = os.environ.get('VERIF_REPLAY_DIR') or os.path.join(VERIF, 'evidence', 'replay'); os.makedirs(rdir, exist_ok=True)
    for (qn, ce, k) in known_hits:
        print('KNOWN-FINDING: property=%s %s [query %s: %s]' % (pid, k['text'], qn, ce['desc']))
    for (qn, ce) in violations:
        dst = os.path.join(rdir, '%s.%s.%s.txt' % (pid, qn, re.sub(r'[^A-Za-z0-9]', '_', ce['id'])))
        try: shutil.copy(ce['stream_file'], dst)
        except Exception: open(dst, 'w').write('\n'.join(str(v) for v in ce.get('stream', [])) + '\n')
        with open(dst + '.info', 'w') as f:
            json.dump({'property': pid, 'query': qn, 'assertion': ce['desc'], 'real_log': ce.get('real_log'), 'solver_only_ub': ce.get('solver_only_ub', False)}, f, indent=1)
        print('VIOLATION property=%s replay=%s' % (pid, dst))
        print('  query=%s assertion="%s" reproduced_on_real_code=%s' % (qn, ce['desc'], ce.get('reproduced_on_real_code')))
    wall = time.time() - t0
    if not a.no_evidence:
        write_evidence(pid, a.tier, seed, spec, qs, results, broken, violations, known_hits, wall)
    if not a.keep and not broken and not violations and not os.environ.get('VERIF_SCRATCH'):
        shutil.rmtree(scratch_root, ignore_errors=True)
    if violations: return 1
    if broken: return 2
    return 0

def replay(a):
    """re-run a stored counterexample (value stream from the cbmc trace) against the g++ build of the real code"""
    info = json.load(open(a.replay + '.info'))
    q = next(q for q in checks.CHECKS[a.prop]['queries'] if q.name == info['query'])
    wd = tempfile.mkdtemp(prefix='verif.replay.', dir='/var/tmp')
    try:
        ll = engine.build_ir(q, wd); roots, flags = engine.harness_roots(q, ll)
        engine.translate(q, ll, wd, roots); engine.write_main(q, wd, flags)
        eb, ec, use_hook = engine.build_native(q, wd, flags, hook_available())
        m = re.search(r'VERIF_SEED=(\d+)', open(a.replay).read())
        rc, out = engine.native_run(ec, seed=int(m.group(1)), yield_den=None if q.mode == 'seq' else (3 if use_hook else 0)) if m else engine.native_run(ec, replay=a.replay)
        print(out)
        if 'ASSERT-FAIL' in out:
            print('VIOLATION property=%s replay=%s' % (a.prop, a.replay)); return 1
        return 0
    finally:
        shutil.rmtree(wd, ignore_errors=True)

def write_evidence(pid, tier, seed, spec, qs, results, broken, violations, known_hits, wall):
    holds = [R for R in results if R['status'] == 'holds']
    fn = set(); stubs = set()
    for R in results:
        fn.update(R.get('encoded', {}).get('function_names', [])); stubs.update(R.get('encoded', {}).get('stubs', []))
    tv = sum(R.get('translation_validation', {}).get('runs_identical', 0) for R in results)
    samples = []
    for R in results[:6]:
        samples.append({'query': R['query'], 'status': R['status'], 'bounds': R['bounds'], 'assertions': R.get('assertions', [])[:12],
                        'cbmc': R.get('cbmc'), 'cbmc_cmd': R.get('cbmc_cmd'),
                        'translation_validation_sample': (R.get('translation_validation', {}).get('samples') or [None])[0]})
    ev = {
        'property_id': pid, 'tier': tier, 'seed': seed, 'level': spec.get('level', 'model_checking'),
        'coverage': {
            'evaluations': len(results),
            'distinct_nontrivial': len([R for R in holds if R.get('properties_checked', 0) > 0]),
            'rule': 'one evaluation = one cbmc run (bounded symbolic execution of the translated real code + SAT) for one query '
                    '(harness x template instantiation x bounds); non-trivial = the run reached the end of the harness '
                    '(witness assertion FAILED as required) and discharged at least one property assertion for all inputs/schedules in the bounds',
            'samples': samples,
            'queries': [{'query': R['query'], 'status': R['status'], 'bounds': R['bounds'], 'properties_checked': R.get('properties_checked'),
                         'encoded_functions': R.get('encoded', {}).get('functions'), 'ir_lines': R.get('encoded', {}).get('ir_lines'),
                         'yield_points': R.get('encoded', {}).get('yield_points'), 'cbmc': R.get('cbmc'),
                         't_build_s': R.get('t_build_s'), 't_cbmc_s': R.get('t_cbmc_s'),
                         'translation_validation': {k: v for k, v in R.get('translation_validation', {}).items() if k != 'samples'}} for R in results],
            'traces_validated_against_impl': tv,
            'functions_encoded': sorted(fn)[:600],
            'stubs': sorted(stubs),
            'solver_time_s': round(sum((R.get('cbmc') or {}).get('solver_time_s', 0) for R in results), 2),
            'solver_calls': sum((R.get('cbmc') or {}).get('solver_calls', 0) for R in results),
            'vccs': sum((R.get('cbmc') or {}).get('vccs', 0) for R in results),
            'broken': broken, 'known_findings_hit': [{'query': qn, 'assertion': ce['desc'], 'finding': k['text']} for (qn, ce, k) in known_hits],
            'outside_the_claim': spec.get('outside', []),
            'exhaustive': False,
        },
        'assumptions': spec.get('assumptions', []) + [
            'allocation never fails (__CPROVER_assume(p!=0) after malloc/new)',
            'clang-14 -O1/-O0 LLVM IR of the wrappers is the encoding of the real code; the translator is cross-checked on every run against the g++ build (translation_validation)',
            'cbmc 6.11 and its SAT back end are trusted'],
        'wall_s': round(wall, 2), 'violations': len(violations),
    }
    os.makedirs(os.path.join(VERIF, 'evidence'), exist_ok=True)
    with open(os.path.join(VERIF, 'evidence', pid + '.json'), 'w') as f: json.dump(ev, f, indent=1)

if __name__ == '__main__':
    sys.exit(main())
