#!/usr/bin/env python3
"""setup_cmd: nothing to build (the framework is Python + C headers); verify that the offline tool chain is there."""
import shutil, subprocess, sys, os
need = ['cbmc', 'clang++-14', 'opt-14', 'llvm-link-14', 'gcc', 'g++']
missing = [t for t in need if not shutil.which(t)]
if missing: print('missing tools:', missing); sys.exit(1)
if not os.path.isdir('/repo/cds'): print('/repo/cds not found'); sys.exit(1)
os.makedirs('/verif/evidence/replay', exist_ok=True)
print(subprocess.run(['cbmc', '--version'], capture_output=True, text=True).stdout.strip(), 'ok')
