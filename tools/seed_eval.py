#!/usr/bin/env python3
"""seed_eval.py <seeded dir> [--tier quick|thorough] [--only <query regex>] [--skip-demo] [--props C26,C11]
Confirms a seeded change (patch.diff + demo.cpp + build.sh, build.sh uses $REPO) and runs our checks against it:
  1. scratch worktree of /repo under /tmp, demo on the clean tree must PASS (exit 0)
  2. patch applied in the worktree, demo must FAIL (exit != 0)
  3. run_check.py <property> with VERIF_REPO=<patched worktree> (same code path as `git -C /repo apply`, but /repo itself stays
     untouched so that other running checks are not disturbed); expected: exit 1 + VIOLATION line
  4. worktree removed
Prints one JSON line with the outcome; never writes evidence (--no-evidence)."""
import os, sys, json, subprocess, argparse, shutil, time, re

VERIF = os.path.dirname(os.path.dirname(os.path.abspath(__file__)))

def sh(cmd, **kw):
    p = subprocess.run(cmd, shell=isinstance(cmd, str), stdout=subprocess.PIPE, stderr=subprocess.STDOUT, text=True, errors='replace', **kw)
    return p.returncode, p.stdout

def main():
    ap = argparse.ArgumentParser()
    ap.add_argument('dir'); ap.add_argument('--tier', default='quick'); ap.add_argument('--only'); ap.add_argument('--skip-demo', action='store_true')
    ap.add_argument('--props'); ap.add_argument('--jobs', default='8')
    a = ap.parse_args()
    d = os.path.abspath(a.dir)
    meta = json.load(open(os.path.join(d, 'meta.json'))) if os.path.exists(os.path.join(d, 'meta.json')) else {}
    props = a.props.split(',') if a.props else meta.get('checks', [meta.get('property')])
    name = os.path.basename(d.rstrip('/'))
    wt = '/tmp/seedwt.%s.%d' % (name, os.getpid())
    out = {'seed': name, 'props': props}
    rc, o = sh(['git', '-C', '/repo', 'worktree', 'add', '-q', '--detach', wt, 'HEAD'])
    if rc: print(o); return 2
    try:
        if not a.skip_demo:
            env = dict(os.environ, REPO=wt)
            tmpd = wt + '/_demo'; shutil.copytree(d, tmpd)
            rc, o = sh(['sh', os.path.join(tmpd, 'build.sh')], env=env, timeout=1800)
            out['demo_clean_rc'] = rc
        rc, o = sh(['git', '-C', wt, 'apply', os.path.join(d, 'patch.diff')])
        if rc: out['apply_error'] = o; print(json.dumps(out)); return 2
        if not a.skip_demo:
            rc, o = sh(['sh', os.path.join(tmpd, 'build.sh')], env=env, timeout=1800)
            out['demo_patched_rc'] = rc; out['demo_patched_tail'] = o.strip().split('\n')[-3:]
            shutil.rmtree(tmpd, ignore_errors=True)
        out['checks'] = {}
        for p in props:
            t0 = time.time()
            cmd = [sys.executable, os.path.join(VERIF, 'run_check.py'), p, a.tier, '--no-evidence', '--jobs', a.jobs]
            if a.only: cmd += ['--only', a.only]
            rc, o = sh(cmd, env=dict(os.environ, VERIF_REPO=wt, VERIF_REPLAY_DIR='/var/tmp/seed_replay'), cwd=VERIF)
            lines = [l for l in o.split('\n') if l.startswith(('VIOLATION', 'BROKEN', 'KNOWN-FINDING')) or 'assertion=' in l]
            out['checks'][p] = {'rc': rc, 'wall_s': round(time.time() - t0, 1), 'lines': lines[:12]}
    finally:
        sh(['git', '-C', '/repo', 'worktree', 'remove', '--force', wt])
    print(json.dumps(out, indent=1))
    return 0

if __name__ == '__main__':
    sys.exit(main())
