#!/usr/bin/env python3
"""seed_results.py <seed_eval log files...>  ->  seeded/RESULTS.md + fills seeded/<id>/meta.json 'evaluation'"""
import sys, json, os, re
VERIF = os.path.dirname(os.path.dirname(os.path.abspath(__file__)))
rows = {}
for p in sys.argv[1:]:
    txt = open(p, errors='replace').read()
    dec = json.JSONDecoder(); i = 0
    while True:
        j = txt.find('{\n "seed"', i)
        if j < 0: break
        try: obj, k = dec.raw_decode(txt[j:])
        except Exception: i = j + 5; continue
        i = j + k
        tag = 'thorough (selected queries)' if ('seedlogs3' in p and '.quick' not in p) else 'quick'
        obj['_tag'] = tag; rows[(obj['seed'], tag)] = obj
out = ['# Seeded changes and what the checks report on them', '',
       'Each row: the change was applied in a scratch worktree, its demonstration run on the clean and on the patched tree (exit codes), then',
       '`run_check.py <property> <tier>` was run with VERIF_REPO=<patched worktree> (tools/seed_eval.py).  rc 1 = VIOLATION reported (caught),',
       'rc 0 = not caught, rc 2 = the check could not decide (timeout etc.).', '',
       '| seed | tier run | property | demo clean/patched | check rc | first report |', '|---|---|---|---|---|---|']
for key in sorted(rows):
    o = rows[key]; name = key[0]
    for prop, c in o.get('checks', {}).items():
        first = next((l for l in c['lines'] if l.startswith('VIOLATION') or 'assertion=' in l), '')
        first2 = next((l.strip() for l in c['lines'] if 'assertion=' in l), first)
        out.append('| %s | %s | %s | %s / %s | %s | %s |' % (name, o['_tag'], prop, o.get('demo_clean_rc', '-'), o.get('demo_patched_rc', '-'), c['rc'], first2.replace('|', '/')[:160]))
    mp = os.path.join(VERIF, 'seeded', name, 'meta.json')
    if os.path.exists(mp):
        m = json.load(open(mp)); m.setdefault('evaluations', {}); m['evaluations'][o['_tag']] = {'demo_clean_rc': o.get('demo_clean_rc'), 'demo_patched_rc': o.get('demo_patched_rc'),
                                                    'checks': {p: {'rc': c['rc'], 'wall_s': c['wall_s'], 'reports': c['lines'][:4]} for p, c in o.get('checks', {}).items()},
                                                    'ran': 'tools/seed_eval.py seeded/%s' % name}
        json.dump(m, open(mp, 'w'), indent=1)
open(os.path.join(VERIF, 'seeded', 'RESULTS.md'), 'w').write('\n'.join(out) + '\n')
print(len(rows), 'rows')
